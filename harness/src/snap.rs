//! Snapshots of library trees (raw node data read through the public fields) and the
//! independent exact evaluator / path-polytope builder / well-formedness walkers on them.
//! Nothing in here calls `find_terminal`, `evaluate_decision`, `PolyhedraGen` or
//! `polyhedral_path_characterization`.

use crate::lpx::Sys;
use crate::q::{dot, qv, Q};
use affinitree::pwl::afftree::AffTree;
use affinitree::pwl::node::NodeState;
use serde_json::{json, Value};
use std::collections::{BTreeMap, BTreeSet};

#[derive(Clone, Debug, PartialEq)]
pub enum SState {
    Indet,
    Infeasible,
    Feasible,
    Witness(Vec<Vec<f64>>),
}

#[derive(Clone, Debug, PartialEq)]
pub struct SNode {
    pub mat: Vec<Vec<f64>>,
    pub bias: Vec<f64>,
    pub parent: Option<usize>,
    pub children: Vec<Option<usize>>,
    pub isleaf: bool,
    pub state: SState,
}

impl SNode {
    pub fn has_children(&self) -> bool {
        self.children.iter().any(|c| c.is_some())
    }
    pub fn n_children(&self) -> usize {
        self.children.iter().filter(|c| c.is_some()).count()
    }
    pub fn outdim(&self) -> usize {
        self.bias.len()
    }
    pub fn indim(&self) -> usize {
        self.mat.first().map(|r| r.len()).unwrap_or(0)
    }
    pub fn same_aff(&self, o: &SNode) -> bool {
        bits_eq_mat(&self.mat, &o.mat) && bits_eq(&self.bias, &o.bias)
    }
}

pub fn bits_eq(a: &[f64], b: &[f64]) -> bool {
    a.len() == b.len() && a.iter().zip(b.iter()).all(|(x, y)| x == y || (x.is_nan() && y.is_nan()))
}
pub fn bits_eq_mat(a: &[Vec<f64>], b: &[Vec<f64>]) -> bool {
    a.len() == b.len() && a.iter().zip(b.iter()).all(|(x, y)| bits_eq(x, y))
}

#[derive(Clone, Debug, PartialEq)]
pub struct Snap {
    pub k: usize,
    pub in_dim: usize,
    pub root: usize,
    pub len: usize,
    pub nodes: BTreeMap<usize, SNode>,
}

pub fn mat_rows(m: &ndarray::Array2<f64>) -> Vec<Vec<f64>> {
    m.outer_iter().map(|r| r.to_vec()).collect()
}

pub fn snap<const K: usize>(t: &AffTree<K>) -> Snap {
    let mut nodes = BTreeMap::new();
    for (idx, nd) in t.tree.node_iter() {
        let state = match &nd.value.state {
            NodeState::Indeterminate => SState::Indet,
            NodeState::Infeasible => SState::Infeasible,
            NodeState::Feasible => SState::Feasible,
            NodeState::FeasibleWitness(w) => SState::Witness(w.iter().map(|p| p.to_vec()).collect()),
        };
        let mut mat = mat_rows(&nd.value.aff.mat);
        if mat.is_empty() {
            mat = Vec::new();
        }
        nodes.insert(
            idx,
            SNode {
                mat,
                bias: nd.value.aff.bias.to_vec(),
                parent: nd.parent,
                children: nd.children.to_vec(),
                isleaf: nd.isleaf,
                state,
            },
        );
    }
    Snap {
        k: K,
        in_dim: t.in_dim,
        root: t.tree.get_root_idx(),
        len: t.tree.len(),
        nodes,
    }
}

#[derive(Clone, Debug, PartialEq)]
pub enum Ev {
    /// evaluation reached a node without children: (node, output)
    Val(usize, Vec<Q>),
    /// a decision was reached whose branch for the computed label is missing: (node, label)
    Undef(usize, usize),
    /// the structure is broken (dangling index, wrong dims, label out of range)
    Broken(String),
}

impl Ev {
    pub fn is_val(&self) -> bool {
        matches!(self, Ev::Val(..))
    }
    pub fn brief(&self) -> Value {
        match self {
            Ev::Val(n, v) => json!({"node": n, "value": v.iter().map(|q| q.to_f64()).collect::<Vec<_>>()}),
            Ev::Undef(n, l) => json!({"undefined_at": n, "label": l}),
            Ev::Broken(s) => json!({"broken": s}),
        }
    }
}

impl Snap {
    pub fn node(&self, i: usize) -> &SNode {
        &self.nodes[&i]
    }

    pub fn label_of(nd: &SNode, x: &[Q]) -> Result<usize, String> {
        let mut label = 0usize;
        for (i, (row, b)) in nd.mat.iter().zip(nd.bias.iter()).enumerate() {
            if row.len() != x.len() {
                return Err(format!("row width {} != input dim {}", row.len(), x.len()));
            }
            let v = dot(&qv(row), x);
            if v.le(&Q::from_f64(*b)) {
                label += 1 << i;
            }
        }
        Ok(label)
    }

    /// Exact evaluation from `start` with route: returns result and the visited (node,label) pairs.
    pub fn eval_from(&self, start: usize, x: &[Q]) -> (Ev, Vec<(usize, usize)>) {
        let mut cur = start;
        let mut route = Vec::new();
        for _ in 0..=self.nodes.len() {
            let nd = match self.nodes.get(&cur) {
                Some(n) => n,
                None => return (Ev::Broken(format!("dangling index {}", cur)), route),
            };
            if !nd.has_children() {
                let mut out = Vec::with_capacity(nd.bias.len());
                for (row, b) in nd.mat.iter().zip(nd.bias.iter()) {
                    if row.len() != x.len() {
                        return (Ev::Broken(format!("terminal {} has width {}", cur, row.len())), route);
                    }
                    out.push(dot(&qv(row), x).add(&Q::from_f64(*b)));
                }
                return (Ev::Val(cur, out), route);
            }
            let label = match Snap::label_of(nd, x) {
                Ok(l) => l,
                Err(e) => return (Ev::Broken(format!("node {}: {}", cur, e)), route),
            };
            if label >= nd.children.len() {
                return (Ev::Broken(format!("node {}: label {} >= K", cur, label)), route);
            }
            route.push((cur, label));
            match nd.children[label] {
                None => return (Ev::Undef(cur, label), route),
                Some(c) => cur = c,
            }
        }
        (Ev::Broken("cycle".into()), route)
    }

    pub fn eval(&self, x: &[Q]) -> Ev {
        self.eval_from(self.root, x).0
    }

    /// (ancestor, label) pairs from the root to `idx` using parent links only.
    pub fn path(&self, idx: usize) -> Result<Vec<(usize, usize)>, String> {
        let mut out = Vec::new();
        let mut cur = idx;
        for _ in 0..=self.nodes.len() {
            let nd = self.nodes.get(&cur).ok_or(format!("dangling index {}", cur))?;
            match nd.parent {
                None => {
                    out.reverse();
                    return Ok(out);
                }
                Some(p) => {
                    let pn = self.nodes.get(&p).ok_or(format!("dangling parent {}", p))?;
                    let label = pn
                        .children
                        .iter()
                        .position(|c| *c == Some(cur))
                        .ok_or(format!("parent {} does not list child {}", p, cur))?;
                    out.push((p, label));
                    cur = p;
                }
            }
        }
        Err("cycle in parent links".into())
    }

    /// Closed path polytope of node `idx` (binary trees with single-row decisions only):
    /// label 1 keeps the row `a x <= b`, label 0 negates it to `-a x <= -b`.
    pub fn path_sys(&self, idx: usize) -> Result<Sys, String> {
        let mut sys = Sys::new(self.in_dim);
        for (anc, label) in self.path(idx)? {
            let nd = self.node(anc);
            if nd.mat.len() != 1 || label > 1 {
                return Err("path_sys: only binary single-row decisions".into());
            }
            let row = qv(&nd.mat[0]);
            let b = Q::from_f64(nd.bias[0]);
            if label == 1 {
                sys.push(row, b);
            } else {
                sys.push(row.iter().map(|v| v.neg()).collect(), b.neg());
            }
        }
        Ok(sys)
    }

    /// rows (as f64, sign applied) of the path, in path order
    pub fn path_rows_f64(&self, idx: usize) -> Result<Vec<(Vec<f64>, f64)>, String> {
        let mut out = Vec::new();
        for (anc, label) in self.path(idx)? {
            let nd = self.node(anc);
            if nd.mat.len() != 1 || label > 1 {
                return Err("path_rows: only binary single-row decisions".into());
            }
            let f = if label == 1 { 1.0 } else { -1.0 };
            out.push((nd.mat[0].iter().map(|v| v * f).collect(), nd.bias[0] * f));
        }
        Ok(out)
    }

    pub fn subtree(&self, idx: usize) -> Vec<usize> {
        let mut out = Vec::new();
        let mut stack = vec![idx];
        while let Some(i) = stack.pop() {
            out.push(i);
            if let Some(nd) = self.nodes.get(&i) {
                for c in nd.children.iter().rev().flatten() {
                    stack.push(*c);
                }
            }
            if out.len() > self.nodes.len() + 1 {
                break;
            }
        }
        out
    }

    pub fn terminals(&self) -> Vec<usize> {
        self.nodes
            .iter()
            .filter(|(_, n)| !n.has_children())
            .map(|(i, _)| *i)
            .collect()
    }
    pub fn decisions(&self) -> Vec<usize> {
        self.nodes
            .iter()
            .filter(|(_, n)| n.has_children())
            .map(|(i, _)| *i)
            .collect()
    }

    pub fn depth_of(&self, idx: usize) -> usize {
        self.path(idx).map(|p| p.len()).unwrap_or(0)
    }

    pub fn to_json(&self) -> Value {
        let nodes: Vec<Value> = self
            .nodes
            .iter()
            .map(|(i, n)| {
                json!({
                    "idx": i,
                    "mat": n.mat,
                    "bias": n.bias,
                    "parent": n.parent,
                    "children": n.children,
                    "isleaf": n.isleaf,
                    "state": match &n.state {
                        SState::Indet => json!("indeterminate"),
                        SState::Infeasible => json!("infeasible"),
                        SState::Feasible => json!("feasible"),
                        SState::Witness(w) => json!({"witness": w}),
                    }
                })
            })
            .collect();
        json!({"K": self.k, "in_dim": self.in_dim, "root": self.root, "len": self.len, "nodes": nodes})
    }

    pub fn structural_hash(&self) -> u64 {
        let mut h = crate::ev::Hasher::new();
        h.u(self.k as u64);
        h.u(self.in_dim as u64);
        // hash in DFS order so that arena layout does not matter
        let mut stack = vec![(self.root, 0usize)];
        let mut guard = 0;
        while let Some((i, lab)) = stack.pop() {
            guard += 1;
            if guard > self.nodes.len() + 2 {
                break;
            }
            h.u(lab as u64);
            if let Some(n) = self.nodes.get(&i) {
                for r in &n.mat {
                    for v in r {
                        h.f(*v);
                    }
                }
                for v in &n.bias {
                    h.f(*v);
                }
                for (l, c) in n.children.iter().enumerate().rev() {
                    match c {
                        Some(c) => stack.push((*c, l + 1)),
                        None => h.u(0xdead),
                    }
                }
            }
        }
        h.fin()
    }

    // -----------------------------------------------------------------------------------
    // Well-formedness walkers (S8)

    /// Tree-level invariants: mirror links, isleaf <=> no children, single parent-less root,
    /// every arena node reachable, len == number of reachable nodes.
    pub fn wf_tree(&self) -> Result<(), String> {
        if self.len != self.nodes.len() {
            return Err(format!("len() = {} but arena iterates {} nodes", self.len, self.nodes.len()));
        }
        let rootn = self.nodes.get(&self.root).ok_or("root index not in arena")?;
        if rootn.parent.is_some() {
            return Err("root has a parent".into());
        }
        let mut parentless = 0;
        for (i, n) in &self.nodes {
            if n.parent.is_none() {
                parentless += 1;
            }
            if n.isleaf != !n.has_children() {
                return Err(format!("node {}: isleaf={} but {} children", i, n.isleaf, n.n_children()));
            }
            if let Some(p) = n.parent {
                let pn = self.nodes.get(&p).ok_or(format!("node {}: parent {} not in arena", i, p))?;
                let cnt = pn.children.iter().filter(|c| **c == Some(*i)).count();
                if cnt != 1 {
                    return Err(format!("node {}: parent {} lists it {} times", i, p, cnt));
                }
            }
            for c in n.children.iter().flatten() {
                let cn = self.nodes.get(c).ok_or(format!("node {}: child {} not in arena", i, c))?;
                if cn.parent != Some(*i) {
                    return Err(format!("node {}: child {} has parent {:?}", i, c, cn.parent));
                }
            }
        }
        if parentless != 1 {
            return Err(format!("{} parent-less nodes", parentless));
        }
        let reach: BTreeSet<usize> = self.subtree(self.root).into_iter().collect();
        if reach.len() != self.nodes.len() {
            return Err(format!("{} nodes reachable, {} in arena", reach.len(), self.nodes.len()));
        }
        Ok(())
    }

    /// AffTree-level invariants of C04. `out_dim`: expected common terminal output dimension if
    /// known. `roles`: optional shadow roles (true = decision) for nodes known to the type model.
    pub fn wf_aff(&self, out_dim: Option<usize>) -> Result<usize, String> {
        self.wf_tree()?;
        let mut od: Option<usize> = out_dim;
        for (i, n) in &self.nodes {
            if n.mat.len() != n.bias.len() {
                return Err(format!("node {}: mat rows {} != bias len {}", i, n.mat.len(), n.bias.len()));
            }
            if n.mat.iter().any(|r| r.len() != self.in_dim) {
                return Err(format!("node {}: function input dim != tree in_dim {}", i, self.in_dim));
            }
            if n.has_children() {
                let r = n.mat.len();
                if r < 1 || (1usize << r) > self.k {
                    return Err(format!("decision {} has {} rows, K={}", i, r, self.k));
                }
            } else {
                match od {
                    None => od = Some(n.outdim()),
                    Some(d) => {
                        if d != n.outdim() {
                            return Err(format!(
                                "terminal {} has output dim {}, expected {}",
                                i,
                                n.outdim(),
                                d
                            ));
                        }
                    }
                }
            }
            if n.mat.iter().flatten().chain(n.bias.iter()).any(|v| !v.is_finite()) {
                return Err(format!("node {} holds a non-finite coefficient", i));
            }
        }
        Ok(od.unwrap_or(0))
    }
}
