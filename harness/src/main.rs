//! vmon — runtime monitors for the 19 affinitree properties.
//!
//!   vmon run <Cxx> <quick|thorough>      supervisor: spawns a worker, merges, writes evidence
//!   vmon work <Cxx> <tier> <seed> <out>  worker (internal)
//!   vmon replay <file>                   re-execute one recorded case
//!   vmon selftest                        oracle self tests

mod ev;
mod gen;
mod known;
mod lpx;
mod props;
mod q;
mod rng;
mod snap;
mod util;

use serde_json::{json, Value};
use std::collections::BTreeMap;
use std::io::Write;
use std::path::PathBuf;
use std::sync::atomic::{AtomicBool, AtomicU64, Ordering};
use std::sync::{Arc, Mutex};
use std::time::{Duration, Instant};

#[derive(Clone, Copy, Debug, PartialEq)]
pub enum Tier {
    Quick,
    Thorough,
}

impl Tier {
    pub fn name(&self) -> &'static str {
        match self {
            Tier::Quick => "quick",
            Tier::Thorough => "thorough",
        }
    }
}

pub struct Ctx {
    pub prop: &'static str,
    pub seed: u64,
    pub tier: Tier,
}

/// Larger-than-usual case (deeper trees, longer histories, more rows): every fifth case of the thorough tier,
/// one case in forty of the quick tier.
pub fn draw_big(ctx: &Ctx, rng: &mut rng::Rng) -> bool {
    match ctx.tier {
        Tier::Thorough => rng.chance(0.2),
        Tier::Quick => rng.chance(0.025),
    }
}

pub struct PropDef {
    pub id: &'static str,
    pub level: &'static str,
    pub cases_quick: u64,
    pub cases_thorough: u64,
    /// run one case; all random choices derive from (ctx.seed, id, case)
    pub run_case: fn(&Ctx, u64, &mut ev::Ev),
    pub rule: &'static str,
    pub assumptions: &'static [&'static str],
    /// wall-clock watchdog for the whole worker (seconds) per tier
    pub watchdog_quick: u64,
    pub watchdog_thorough: u64,
    pub exhaustive_note: Option<&'static str>,
}

fn verif_root() -> PathBuf {
    // harness binary lives in /verif/harness/target/mon/vmon
    if let Ok(p) = std::env::var("VERIF_ROOT") {
        return PathBuf::from(p);
    }
    let exe = std::env::current_exe().unwrap();
    let mut p = exe.clone();
    for _ in 0..4 {
        p.pop();
    }
    if p.join("properties.jsonl").exists() {
        p
    } else {
        PathBuf::from("/verif")
    }
}

fn seed_from_env() -> u64 {
    std::env::var("VERIF_SEED")
        .ok()
        .and_then(|s| s.trim().parse::<i64>().ok())
        .map(|v| v as u64)
        .unwrap_or(1)
}

fn main() {
    let args: Vec<String> = std::env::args().collect();
    let cmd = args.get(1).map(|s| s.as_str()).unwrap_or("");
    let code = match cmd {
        "selftest" => selftest(),
        "run" => supervisor(&args[2], &args[3]),
        "work" => worker(&args[2], &args[3], args[4].parse().unwrap(), &args[5]),
        "replay" => replay(&args[2]),
        "lp" => probe_lp(&args[2]),
        "selftest-none" => 0,
        _ => {
            eprintln!("usage: vmon run <Cxx> <quick|thorough> | replay <file> | selftest");
            2
        }
    };
    std::process::exit(code);
}

fn selftest() -> i32 {
    let mut ok = true;
    match q::selftest() {
        Ok(n) => println!("selftest q: ok ({} checks)", n),
        Err(e) => {
            println!("selftest q: FAILED {}", e);
            ok = false;
        }
    }
    for seed in 1..=3 {
        match lpx::selftest(seed) {
            Ok(n) => println!("selftest lpx seed {}: ok ({} instances vs brute force)", seed, n),
            Err(e) => {
                println!("selftest lpx: FAILED {}", e);
                ok = false;
            }
        }
    }
    match props::selftest() {
        Ok(n) => println!("selftest refeval/monitors: ok ({} checks)", n),
        Err(e) => {
            println!("selftest refeval: FAILED {}", e);
            ok = false;
        }
    }
    if ok {
        0
    } else {
        1
    }
}

fn parse_tier(s: &str) -> Tier {
    match s {
        "thorough" => Tier::Thorough,
        _ => Tier::Quick,
    }
}

fn find_prop(id: &str) -> &'static PropDef {
    props::registry()
        .iter()
        .find(|p| p.id == id)
        .unwrap_or_else(|| panic!("unknown property {}", id))
}

// ---------------------------------------------------------------------------------------
// worker

fn worker(id: &str, tier: &str, seed: u64, out: &str) -> i32 {
    let def = find_prop(id);
    let tier = parse_tier(tier);
    let ctx = Arc::new(Ctx {
        prop: def.id,
        seed,
        tier,
    });
    let argv: Vec<String> = std::env::args().collect();
    let n_cases = argv
        .get(6)
        .cloned()
        .or_else(|| std::env::var("VMON_CASES").ok())
        .and_then(|s| s.parse().ok())
        .unwrap_or(match tier {
            Tier::Quick => def.cases_quick,
            Tier::Thorough => def.cases_thorough,
        });
    let threads: usize = argv
        .get(7)
        .cloned()
        .or_else(|| std::env::var("VMON_THREADS").ok())
        .and_then(|s| s.parse().ok())
        .unwrap_or(16);
    // optional: first case number (so that sharded processes explore different cases)
    let first_case: u64 = argv.get(8).and_then(|s| s.parse().ok()).unwrap_or(0);
    let soft_deadline = Instant::now()
        + Duration::from_secs(match tier {
            Tier::Quick => def.watchdog_quick,
            Tier::Thorough => def.watchdog_thorough,
        });
    util::install_panic_hook();
    let workdir = PathBuf::from(out).parent().unwrap().to_path_buf();
    util::set_workdir(&workdir);
    let next = Arc::new(AtomicU64::new(first_case));
    let n_cases = n_cases + first_case;
    let timed_out = Arc::new(AtomicBool::new(false));
    let total = Arc::new(Mutex::new(ev::Ev::new()));
    let mut handles = Vec::new();
    for t in 0..threads {
        let ctx = ctx.clone();
        let next = next.clone();
        let total = total.clone();
        let timed_out = timed_out.clone();
        let workdir = workdir.clone();
        let run_case = def.run_case;
        let id_for_layout: &'static str = def.id;
        handles.push(
            std::thread::Builder::new()
                .stack_size(64 << 20)
                .spawn(move || {
                    util::wal_open(&workdir, t);
                    let mut local = ev::Ev::new();
                    loop {
                        let case = next.fetch_add(1, Ordering::SeqCst);
                        if case >= n_cases {
                            break;
                        }
                        if Instant::now() > soft_deadline {
                            timed_out.store(true, Ordering::SeqCst);
                            break;
                        }
                        util::wal(&format!("case={} begin", case));
                        let r = std::panic::catch_unwind(std::panic::AssertUnwindSafe(|| {
                            gen::layout_arm(ctx.seed, id_for_layout, case);
                            run_case(&ctx, case, &mut local);
                            let (l2, l1) = gen::layout_stats_take();
                            if l2 + l1 > 0 {
                                local.count("arrays_in_nonstandard_memory_layout", l2 + l1);
                            }
                        }));
                        if let Err(_) = r {
                            let msg = util::take_panic();
                            local.inconclusive.push(format!("harness panic in case {}: {}", case, msg));
                        }
                        util::wal(&format!("case={} end", case));
                    }
                    total.lock().unwrap().merge(local);
                })
                .unwrap(),
        );
    }
    for h in handles {
        let _ = h.join();
    }
    let mut total = Arc::try_unwrap(total).ok().unwrap().into_inner().unwrap();
    if timed_out.load(Ordering::SeqCst) {
        total.inc("stopped_by_soft_deadline");
    }
    let done = next.load(Ordering::SeqCst).min(n_cases);
    let viols: Vec<Value> = total
        .viols
        .iter()
        .map(|v| json!({"case": v.case, "sig": v.sig, "key": v.key, "detail": v.detail}))
        .collect();
    let res = json!({
        "evaluations": total.evaluations,
        "cases_planned": n_cases,
        "cases_started": done,
        "distinct_nontrivial": total.nontrivial.len(),
        "counters": ev::map_to_json(&total.counters),
        "skips": ev::map_to_json(&total.skips),
        "samples": total.samples,
        "violations": viols,
        "inconclusive": total.inconclusive,
    });
    std::fs::write(out, serde_json::to_vec(&res).unwrap()).unwrap();
    0
}

// ---------------------------------------------------------------------------------------
// supervisor

fn supervisor(id: &str, tier_s: &str) -> i32 {
    let def = find_prop(id);
    let tier = parse_tier(tier_s);
    let seed = seed_from_env();
    let root = verif_root();
    let t0 = Instant::now();
    // stale witness files of earlier runs of this check are removed
    if let Ok(rd) = std::fs::read_dir(root.join("replays")) {
        let prefix = format!("{}-{}-", id, tier.name());
        for e in rd.flatten() {
            if e.file_name().to_string_lossy().starts_with(&prefix) {
                let _ = std::fs::remove_file(e.path());
            }
        }
    }
    // second pass of the thorough tier in a build without debug assertions / overflow checks (see ./check)
    let build_tag: Option<String> = std::env::var("VMON_BUILD_TAG").ok().filter(|s| !s.is_empty());
    let skip_evidence = std::env::var("VMON_SKIP_EVIDENCE").map_or(false, |v| v == "1");
    let workdir = root.join("replays").join(format!(".work-{}-{}", id, std::process::id()));
    let _ = std::fs::remove_dir_all(&workdir);
    std::fs::create_dir_all(&workdir).unwrap();
    let out = workdir.join("result.json");
    let exe = std::env::current_exe().unwrap();
    let hard = Duration::from_secs(
        match tier {
            Tier::Quick => def.watchdog_quick,
            Tier::Thorough => def.watchdog_thorough,
        } + 600,
    );
    let mut child = std::process::Command::new(&exe)
        .args(["work", id, tier.name(), &seed.to_string(), out.to_str().unwrap()])
        .spawn()
        .expect("spawn worker");
    let status = loop {
        match child.try_wait().unwrap() {
            Some(s) => break Some(s),
            None => {
                if t0.elapsed() > hard {
                    let _ = child.kill();
                    let _ = child.wait();
                    break None;
                }
                std::thread::sleep(Duration::from_millis(50));
            }
        }
    };

    let known = known::load(&root, id);
    let mut lines: Vec<String> = Vec::new();
    let mut exit = 0;
    let evidence_path = root.join("evidence").join(format!("{}.json", id));
    let _ = std::fs::create_dir_all(root.join("evidence"));

    let res: Option<Value> = std::fs::read(&out).ok().and_then(|b| serde_json::from_slice(&b).ok());
    let mut violations_out: Vec<(String, Value)> = Vec::new();
    let mut known_hits: BTreeMap<String, u64> = BTreeMap::new();
    let mut inconclusive: Vec<String> = Vec::new();

    match (&status, &res) {
        (Some(s), Some(_)) if s.success() => {}
        (None, _) => inconclusive.push("worker exceeded the hard wall-clock watchdog and was killed".into()),
        (Some(s), _) => {
            // abnormal death: look for a panicking library call in the write-ahead markers
            let culprit = util::wal_find_abort(&workdir);
            match culprit {
                Some((case, what)) => {
                    violations_out.push((
                        format!("abort:{}", what),
                        json!({"property": id, "seed": seed, "case": case, "tier": tier.name(),
                               "symptom": "process aborted during a monitored library call", "marker": what,
                               "exit": format!("{:?}", s)}),
                    ));
                }
                None => inconclusive.push(format!("worker died without result ({:?}) and no in-flight library call was marked", s)),
            }
        }
    }

    let empty = json!({});
    let r = res.as_ref().unwrap_or(&empty);
    if let Some(arr) = r.get("inconclusive").and_then(|v| v.as_array()) {
        for s in arr {
            inconclusive.push(s.as_str().unwrap_or("").to_string());
        }
    }
    let mut seen_sigs: BTreeMap<String, ()> = BTreeMap::new();
    if let Some(arr) = r.get("violations").and_then(|v| v.as_array()) {
        let mut sorted: Vec<&Value> = arr.iter().collect();
        sorted.sort_by_key(|v| v["case"].as_u64().unwrap_or(0));
        for v in sorted {
            let key = v["key"].as_str().unwrap_or("").to_string();
            let sig = v["sig"].as_str().unwrap_or("").to_string();
            if !key.is_empty() && known.iter().any(|k| k.status == "open" && k.key == key) {
                *known_hits.entry(key).or_insert(0) += 1;
                continue;
            }
            if seen_sigs.contains_key(&sig) {
                continue;
            }
            seen_sigs.insert(sig.clone(), ());
            violations_out.push((
                sig,
                json!({"property": id, "seed": seed, "case": v["case"], "tier": tier.name(), "detail": v["detail"], "sig": v["sig"]}),
            ));
        }
    }

    // known findings: re-execute witnesses
    for k in known.iter().filter(|k| k.status == "open") {
        match props::check_known_witness(id, k) {
            Ok(true) => lines.push(format!("KNOWN-FINDING: property={} {}", id, k.summary)),
            Ok(false) => lines.push(format!(
                "NOTE: known finding {} no longer reproduces on its witness (property={})",
                k.id, id
            )),
            Err(e) => inconclusive.push(format!("known-finding witness {} could not be executed: {}", k.id, e)),
        }
    }

    // auxiliary sanitizer tier (thorough only): the same workload under Miri / valgrind memcheck
    let mut sanitizer = json!(null);
    if tier == Tier::Thorough && std::env::var("VMON_NO_SANITIZER").is_err() {
        let (sj, sviol, sinc) = sanitizer_tier(id, seed, &root, &workdir);
        sanitizer = sj;
        for (sig, d) in sviol {
            violations_out.push((sig, d));
        }
        inconclusive.extend(sinc);
    }

    let evaluations = r.get("evaluations").and_then(|v| v.as_u64()).unwrap_or(0);
    let distinct = r.get("distinct_nontrivial").and_then(|v| v.as_u64()).unwrap_or(0);
    if violations_out.is_empty() && inconclusive.is_empty() && (evaluations == 0 || distinct < 2) {
        inconclusive.push(format!(
            "run observed too little: evaluations={} distinct_nontrivial={}",
            evaluations, distinct
        ));
    }

    let mut n_viol = 0;
    for (i, (sig, detail)) in violations_out.iter().enumerate() {
        let path = root.join("replays").join(match &build_tag {
            Some(t) => format!("{}-{}-{}-{}-{}.json", id, tier.name(), t, seed, i),
            None => format!("{}-{}-{}-{}.json", id, tier.name(), seed, i),
        });
        let mut d = detail.clone();
        d["signature"] = json!(sig);
        if let Some(t) = &build_tag {
            d["build_profile"] = json!(t);
        }
        std::fs::write(&path, serde_json::to_string_pretty(&d).unwrap()).unwrap();
        lines.push(format!("VIOLATION property={} replay={}", id, path.display()));
        n_viol += 1;
    }
    if n_viol > 0 {
        exit = 1;
    } else if !inconclusive.is_empty() {
        exit = 2;
        for s in &inconclusive {
            lines.push(format!("INCONCLUSIVE property={} reason={}", id, s));
        }
    }

    let wall = t0.elapsed().as_secs_f64();
    let mut coverage = json!({
        "evaluations": evaluations,
        "distinct_nontrivial": distinct,
        "rule": def.rule,
        "samples": r.get("samples").cloned().unwrap_or(json!([])),
        "cases_planned": r.get("cases_planned").cloned().unwrap_or(json!(0)),
        "cases_started": r.get("cases_started").cloned().unwrap_or(json!(0)),
        "observations": r.get("counters").cloned().unwrap_or(json!({})),
        "skips_by_reason": r.get("skips").cloned().unwrap_or(json!({})),
        "known_finding_hits": known_hits.iter().map(|(k, v)| json!({"key": k, "count": v})).collect::<Vec<_>>(),
        "inconclusive": inconclusive,
        "exhaustive": false,
    });
    if let Some(n) = def.exhaustive_note {
        coverage["exhaustive_subspace"] = json!(n);
    }
    if !sanitizer.is_null() {
        coverage["sanitizer_tier"] = sanitizer;
    }
    // summary left behind by the release-build pass that ./check runs before the thorough pass
    let relfile = root.join("replays").join(format!(".release-pass-{}.json", id));
    if build_tag.is_none() && tier == Tier::Thorough {
        if let Some(v) = std::fs::read(&relfile).ok().and_then(|b| serde_json::from_slice::<Value>(&b).ok()) {
            coverage["release_build_pass"] = v;
            let _ = std::fs::remove_file(&relfile);
        }
    }
    if let Some(t) = &build_tag {
        let _ = std::fs::write(
            &relfile,
            serde_json::to_vec(&json!({"build_profile": t, "what": "the quick workload of this check in a build WITHOUT debug assertions and overflow checks", "seed": seed as i64,
                "evaluations": evaluations, "distinct_nontrivial": distinct, "violations": n_viol, "inconclusive": inconclusive.clone(), "wall_s": wall}))
            .unwrap(),
        );
    }
    let evidence = json!({
        "property_id": id,
        "tier": tier.name(),
        "seed": seed as i64,
        "level": def.level,
        "coverage": coverage,
        "assumptions": def.assumptions,
        "wall_s": wall,
        "violations": n_viol,
    });
    if !skip_evidence {
        std::fs::write(&evidence_path, serde_json::to_string_pretty(&evidence).unwrap()).unwrap();
    }

    let _ = std::fs::remove_dir_all(&workdir);
    let so = std::io::stdout();
    let mut so = so.lock();
    writeln!(
        so,
        "{}{} {} seed={} cases={} evaluations={} distinct_nontrivial={} violations={} wall={:.1}s",
        build_tag.as_ref().map_or(String::new(), |t| format!("[{} build] ", t)),
        id,
        tier.name(),
        seed,
        r.get("cases_started").and_then(|v| v.as_u64()).unwrap_or(0),
        evaluations,
        distinct,
        n_viol,
        wall
    )
    .unwrap();
    if let Some(c) = r.get("counters") {
        let _ = writeln!(so, "  observed: {}", c);
    }
    if let Some(c) = r.get("skips") {
        let _ = writeln!(so, "  skipped: {}", c);
    }
    for (k, v) in &known_hits {
        let _ = writeln!(so, "  known-finding hits: {} x{}", k, v);
    }
    for l in lines {
        let _ = writeln!(so, "{}", l);
    }
    exit
}

fn replay(file: &str) -> i32 {
    let v: Value = match std::fs::read(file).ok().and_then(|b| serde_json::from_slice(&b).ok()) {
        Some(v) => v,
        None => {
            eprintln!("cannot read replay file {}", file);
            return 2;
        }
    };
    let id = v["property"].as_str().unwrap_or("");
    let def = find_prop(id);
    let seed = v["seed"].as_u64().unwrap_or(1);
    let case = v["case"].as_u64().unwrap_or(0);
    let tier = parse_tier(v["tier"].as_str().unwrap_or("quick"));
    let ctx = Ctx {
        prop: def.id,
        seed,
        tier,
    };
    util::install_panic_hook();
    let mut e = ev::Ev::new();
    gen::layout_arm(ctx.seed, def.id, case);
    (def.run_case)(&ctx, case, &mut e);
    println!(
        "replayed property={} seed={} case={} evaluations={}",
        id, seed, case, e.evaluations
    );
    if e.viols.is_empty() {
        println!("no disagreement on the current tree");
        0
    } else {
        for v in &e.viols {
            println!("VIOLATION property={} replay={}", id, file);
            println!("  sig: {}", v.sig);
            println!("  detail: {}", serde_json::to_string_pretty(&v.detail).unwrap());
        }
        1
    }
}

/// triage helper: vmon lp '{"mat":[[..]],"bias":[..],"cost":[..]}' prints the library's and the exact answer
fn probe_lp(arg: &str) -> i32 {
    let v: Value = serde_json::from_str(arg).expect("json");
    let mat: Vec<Vec<f64>> = serde_json::from_value(v["mat"].clone()).unwrap();
    let bias: Vec<f64> = serde_json::from_value(v["bias"].clone()).unwrap();
    let cost: Vec<f64> = serde_json::from_value(v["cost"].clone()).unwrap();
    let a = gen::Aff { mat, bias };
    let p = a.to_poly();
    println!("library: {:?}", p.solve_linprog(gen::arr1(&cost), false));
    let sys = a.sys();
    println!("exact:   {:?}", lpx::minimize(&sys, &q::qv(&cost)).map(|o| match o {
        lpx::Opt::Infeasible(_) => "infeasible".to_string(),
        lpx::Opt::Unbounded { ray, .. } => format!("unbounded ray {:?}", ray.iter().map(|q| q.to_f64()).collect::<Vec<_>>()),
        lpx::Opt::Optimal { x, value, .. } => format!("optimal value {} at {:?}", value.to_f64(), x.iter().map(|q| q.to_f64()).collect::<Vec<_>>()),
    }));
    println!("rank {} of {} columns", lpx::rank(&sys.a, sys.n), sys.n);
    0
}

/// Which properties get the auxiliary sanitizer tier in their thorough command, and how many cases.
fn sanitizer_plan(id: &str) -> Option<(&'static str, u64, usize)> {
    // (tool, cases per process, processes)
    match id {
        "C12" => Some(("miri", 40, 16)),
        "C13" => Some(("miri", 25, 16)),
        "C04" => Some(("valgrind", 120, 8)),
        "C05" => Some(("valgrind", 120, 8)),
        _ => None,
    }
}

/// Runs the worker again under Miri (tree-only properties) or valgrind memcheck (history
/// properties) on fresh case numbers. A report of undefined behaviour / an invalid access is a
/// VIOLATION of the property whose history triggered it (with the tool's log as replay file);
/// monitor disagreements found under the tool count like any other; everything else (tool not
/// available, unsupported operation, timeout) is INCONCLUSIVE for the tier but never a violation.
fn sanitizer_tier(id: &str, seed: u64, root: &std::path::Path, workdir: &std::path::Path) -> (Value, Vec<(String, Value)>, Vec<String>) {
    let (tool, cases, procs) = match sanitizer_plan(id) {
        Some(p) => p,
        None => return (json!(null), vec![], vec![]),
    };
    let harness = root.join("harness");
    let exe = std::env::current_exe().unwrap();
    let t0 = Instant::now();
    if tool == "miri" {
        // build once so that the parallel runs do not fight over the cargo lock
        let b = std::process::Command::new("cargo")
            .args(["+nightly", "miri", "run", "--offline", "--", "selftest-none"])
            .current_dir(&harness)
            .env("MIRIFLAGS", "-Zmiri-disable-isolation")
            .output();
        if b.is_err() {
            return (json!({"tool": "miri", "status": "unavailable"}), vec![], vec!["sanitizer tier: cargo +nightly miri could not be started".into()]);
        }
    }
    let mut children = Vec::new();
    for i in 0..procs {
        let out = workdir.join(format!("san-{}.json", i));
        let log = workdir.join(format!("san-{}.log", i));
        let first_case = 50_000_000u64 + (i as u64) * 100_000;
        let logf = std::fs::File::create(&log).unwrap();
        let logf2 = logf.try_clone().unwrap();
        let child = if tool == "miri" {
            std::process::Command::new("cargo")
                .args(["+nightly", "miri", "run", "--offline", "--", "work", id, "thorough", &seed.to_string(), out.to_str().unwrap(), &cases.to_string(), "1", &first_case.to_string()])
                .current_dir(&harness)
                .env("MIRIFLAGS", "-Zmiri-disable-isolation")
                .stdout(logf)
                .stderr(logf2)
                .spawn()
        } else {
            std::process::Command::new("valgrind")
                .args(["--error-exitcode=99", "--leak-check=no", "--quiet"])
                .arg(&exe)
                .args(["work", id, "thorough", &seed.to_string(), out.to_str().unwrap(), &cases.to_string(), "1", &first_case.to_string()])
                .stdout(logf)
                .stderr(logf2)
                .spawn()
        };
        match child {
            Ok(c) => children.push((i, c, out, log)),
            Err(e) => return (json!({"tool": tool, "status": "unavailable", "error": e.to_string()}), vec![], vec![format!("sanitizer tier: {} could not be started", tool)]),
        }
    }
    let deadline = Duration::from_secs(3600);
    let mut cases_run = 0u64;
    let mut ops: BTreeMap<String, u64> = BTreeMap::new();
    let mut viols = Vec::new();
    let mut inconcl = Vec::new();
    let mut reports = 0u64;
    for (i, mut c, out, log) in children {
        let status = loop {
            match c.try_wait() {
                Ok(Some(s)) => break Some(s),
                Ok(None) => {
                    if t0.elapsed() > deadline {
                        let _ = c.kill();
                        let _ = c.wait();
                        break None;
                    }
                    std::thread::sleep(Duration::from_millis(200));
                }
                Err(_) => break None,
            }
        };
        let logtxt = std::fs::read_to_string(&log).unwrap_or_default();
        let ub = logtxt.contains("Undefined Behavior") || logtxt.contains("Invalid read") || logtxt.contains("Invalid write") || logtxt.contains("uninitialised value") || logtxt.contains("Invalid free");
        if ub {
            reports += 1;
            let keep = root.join("replays").join(format!("{}-thorough-{}-{}-{}.log", id, seed, tool, i));
            let _ = std::fs::copy(&log, &keep);
            viols.push((
                format!("sanitizer:{}", tool),
                json!({"property": id, "seed": seed, "tier": "thorough", "case": 50_000_000u64 + (i as u64) * 100_000, "tool": tool, "log": keep.to_string_lossy(), "excerpt": logtxt.lines().filter(|l| l.contains("Undefined Behavior") || l.contains("Invalid") || l.contains("uninitialised")).take(5).collect::<Vec<_>>()}),
            ));
            continue;
        }
        match (status, std::fs::read(&out).ok().and_then(|b| serde_json::from_slice::<Value>(&b).ok())) {
            (Some(s), Some(v)) if s.success() => {
                cases_run += v["cases_started"].as_u64().unwrap_or(0).saturating_sub(50_000_000u64 + (i as u64) * 100_000);
                if let Some(o) = v["counters"].as_object() {
                    for (k, n) in o {
                        *ops.entry(k.clone()).or_insert(0) += n.as_u64().unwrap_or(0);
                    }
                }
                if let Some(arr) = v["violations"].as_array() {
                    for x in arr {
                        viols.push((
                            format!("{}(under {})", x["sig"].as_str().unwrap_or("?"), tool),
                            json!({"property": id, "seed": seed, "tier": "thorough", "case": x["case"], "detail": x["detail"], "sig": x["sig"], "found_under": tool}),
                        ));
                    }
                }
            }
            (None, _) => inconcl.push(format!("sanitizer tier: {} process {} exceeded its time limit", tool, i)),
            (Some(s), _) => inconcl.push(format!("sanitizer tier: {} process {} ended with {:?} without a report of undefined behaviour: {}", tool, i, s, logtxt.lines().rev().find(|l| l.contains("error")).unwrap_or("").chars().take(160).collect::<String>())),
        }
    }
    (
        json!({"tool": tool, "processes": procs, "cases_per_process": cases, "cases_run": cases_run, "reports": reports,
               "observations": ev::map_to_json(&ops), "wall_s": t0.elapsed().as_secs_f64(),
               "note": "a clean run is 'no report on these executions', not memory safety"}),
        viols,
        inconcl,
    )
}
