//! Seeded generators: affine maps, tree specifications, library trees with scrambled arenas,
//! probe inputs (lattice, cell-interior, on-hyperplane, gaussian).

use crate::lpx;
use crate::q::{dot, qv, Q};
use crate::rng::Rng;
use crate::snap::Snap;
use affinitree::linalg::affine::{AffFunc, Polytope};
use affinitree::pwl::afftree::AffTree;
use ndarray::{Array1, Array2};
use serde_json::{json, Value};

#[derive(Clone, Debug, PartialEq)]
pub struct Aff {
    pub mat: Vec<Vec<f64>>,
    pub bias: Vec<f64>,
}

impl Aff {
    pub fn indim(&self) -> usize {
        self.mat.first().map(|r| r.len()).unwrap_or(0)
    }
    pub fn outdim(&self) -> usize {
        self.bias.len()
    }
    /// x -> f(x - d) for a function: bias -= M d
    pub fn shift_function(&mut self, d: &[f64]) {
        for i in 0..self.mat.len() {
            let s: f64 = self.mat[i].iter().zip(d.iter()).map(|(m, v)| m * v).sum();
            self.bias[i] -= s;
        }
    }
    /// {x | A (x - d) <= b} for a predicate / polytope: bias += A d
    pub fn shift_predicate(&mut self, d: &[f64]) {
        for i in 0..self.mat.len() {
            let s: f64 = self.mat[i].iter().zip(d.iter()).map(|(m, v)| m * v).sum();
            self.bias[i] += s;
        }
    }
    pub fn to_lib(&self) -> AffFunc {
        AffFunc::from_mats(arr2(&self.mat, self.indim()), arr1(&self.bias))
    }
    pub fn to_poly(&self) -> Polytope {
        Polytope::from_mats(arr2(&self.mat, self.indim()), arr1(&self.bias))
    }
    pub fn from_lib(f: &AffFunc) -> Aff {
        Aff {
            mat: crate::snap::mat_rows(&f.mat),
            bias: f.bias.to_vec(),
        }
    }
    pub fn from_poly(f: &Polytope) -> Aff {
        Aff {
            mat: crate::snap::mat_rows(&f.mat),
            bias: f.bias.to_vec(),
        }
    }
    pub fn identity(d: usize) -> Aff {
        let mut mat = vec![vec![0.0; d]; d];
        for i in 0..d {
            mat[i][i] = 1.0;
        }
        Aff {
            mat,
            bias: vec![0.0; d],
        }
    }
    pub fn json(&self) -> Value {
        json!({"mat": self.mat, "bias": self.bias})
    }
    pub fn apply_q(&self, x: &[Q]) -> Vec<Q> {
        self.mat
            .iter()
            .zip(self.bias.iter())
            .map(|(r, b)| dot(&qv(r), x).add(&Q::from_f64(*b)))
            .collect()
    }
    pub fn sys(&self) -> lpx::Sys {
        let mut s = lpx::Sys::new(self.indim());
        for (r, b) in self.mat.iter().zip(self.bias.iter()) {
            s.push_f64(r, *b);
        }
        s
    }
}

thread_local! {
    /// per-case state of the memory-layout lottery (0 = always standard layout)
    static LAYOUT: std::cell::Cell<u64> = std::cell::Cell::new(0);
    static LAYOUT_STATS: std::cell::Cell<(u64, u64)> = std::cell::Cell::new((0, 0));
}

/// Arm the memory-layout lottery for the current case: arrays handed to the library are then built,
/// deterministically in (seed, property, case), in row-major, column-major (Fortran) or axis-reversed
/// (negative stride) layout. All of them are `==` to the row-major array; the library must not care.
pub fn layout_arm(seed: u64, prop: &str, case: u64) {
    let mut h: u64 = 0x9E37_79B9_7F4A_7C15 ^ seed.wrapping_mul(0xD6E8_FEB8_6659_FD93) ^ case.wrapping_mul(0xA24B_AED4_963E_E407);
    for b in prop.bytes() {
        h = (h ^ b as u64).wrapping_mul(0x100_0000_01B3);
    }
    LAYOUT.with(|l| l.set(h | 1));
}

/// (non-standard 2-d arrays, non-standard 1-d arrays) built on this thread since the last call
pub fn layout_stats_take() -> (u64, u64) {
    LAYOUT_STATS.with(|s| s.replace((0, 0)))
}

fn layout_draw() -> u64 {
    LAYOUT.with(|l| {
        let mut x = l.get();
        if x == 0 {
            return 0;
        }
        x ^= x << 13;
        x ^= x >> 7;
        x ^= x << 17;
        l.set(x | 1);
        (x >> 11) % 100
    })
}

pub fn arr2(rows: &[Vec<f64>], cols: usize) -> Array2<f64> {
    use ndarray::ShapeBuilder;
    let r = rows.len();
    let d = layout_draw();
    let mut a = if d >= 70 && d < 85 { Array2::zeros((r, cols).f()) } else { Array2::zeros((r, cols)) };
    let rev_cols = d >= 85 && d < 95;
    let rev_rows = d >= 95;
    for (i, row) in rows.iter().enumerate() {
        for (j, v) in row.iter().enumerate() {
            let ii = if rev_rows { r - 1 - i } else { i };
            let jj = if rev_cols { cols - 1 - j } else { j };
            a[[ii, jj]] = *v;
        }
    }
    if rev_cols {
        a.invert_axis(ndarray::Axis(1));
    }
    if rev_rows {
        a.invert_axis(ndarray::Axis(0));
    }
    if d >= 70 && r * cols > 1 {
        LAYOUT_STATS.with(|s| {
            let (x, y) = s.get();
            s.set((x + 1, y));
        });
    }
    a
}

pub fn arr1(v: &[f64]) -> Array1<f64> {
    let d = layout_draw();
    if d >= 80 && v.len() > 1 {
        let mut w = v.to_vec();
        w.reverse();
        let mut a = Array1::from(w);
        a.invert_axis(ndarray::Axis(0));
        LAYOUT_STATS.with(|s| {
            let (x, y) = s.get();
            s.set((x, y + 1));
        });
        return a;
    }
    Array1::from(v.to_vec())
}

#[derive(Clone, Copy, Debug, PartialEq)]
pub enum Regime {
    /// small integers
    Int,
    /// k / 2^j with small k
    Dyadic,
    /// gaussian rounded to multiples of 2^-10
    Short,
    /// full-mantissa gaussian
    Full,
}

impl Regime {
    pub fn is_exact(&self) -> bool {
        matches!(self, Regime::Int | Regime::Dyadic)
    }
    pub fn name(&self) -> &'static str {
        match self {
            Regime::Int => "int",
            Regime::Dyadic => "dyadic",
            Regime::Short => "short-float",
            Regime::Full => "full-float",
        }
    }
}

pub fn coef(rng: &mut Rng, r: Regime) -> f64 {
    match r {
        Regime::Int => rng.int(-3, 3) as f64,
        Regime::Dyadic => rng.int(-6, 6) as f64 / (1u32 << rng.below(3)) as f64,
        Regime::Short => ((rng.gauss() * 1.5) * 1024.0).round() / 1024.0,
        Regime::Full => rng.gauss() * 1.5,
    }
}

pub fn nonzero_row(rng: &mut Rng, n: usize, r: Regime) -> Vec<f64> {
    loop {
        let row: Vec<f64> = (0..n)
            .map(|_| if rng.chance(0.25) { 0.0 } else { coef(rng, r) })
            .collect();
        if row.iter().any(|v| *v != 0.0) {
            return row;
        }
    }
}

pub fn aff(rng: &mut Rng, out: usize, inn: usize, r: Regime) -> Aff {
    Aff {
        mat: (0..out)
            .map(|_| (0..inn).map(|_| if rng.chance(0.2) { 0.0 } else { coef(rng, r) }).collect())
            .collect(),
        bias: (0..out).map(|_| coef(rng, r)).collect(),
    }
}

pub fn pred(rng: &mut Rng, rows: usize, inn: usize, r: Regime) -> Aff {
    Aff {
        mat: (0..rows).map(|_| nonzero_row(rng, inn, r)).collect(),
        bias: (0..rows).map(|_| coef(rng, r)).collect(),
    }
}

#[derive(Clone, Debug)]
pub enum Spec {
    T(Aff),
    D(Aff, Vec<Option<Box<Spec>>>),
}

/// A translation vector with components of magnitude 3e6 .. 8.4e6 (exactly representable): moves a tree
/// so that all its regions lie far from the origin.
pub fn far_shift(rng: &mut Rng, n: usize) -> Vec<f64> {
    let mut d: Vec<f64> = (0..n).map(|_| *rng.pick(&[0.0, 3.0e6, -3.0e6, 5.0e6, -5.0e6, 8388608.0, -8388608.0])).collect();
    if d.iter().all(|v| *v == 0.0) {
        let j = rng.below(n);
        d[j] = *rng.pick(&[3.0e6, -5.0e6, 8388608.0]);
    }
    d
}

impl Spec {
    /// replaces the tree function f by x -> f(x - d): predicates A x <= b + A d, terminals M x + (c - M d)
    pub fn translate(&mut self, d: &[f64]) {
        match self {
            Spec::T(a) => {
                for i in 0..a.mat.len() {
                    let s: f64 = a.mat[i].iter().zip(d.iter()).map(|(m, v)| m * v).sum();
                    a.bias[i] -= s;
                }
            }
            Spec::D(a, kids) => {
                for i in 0..a.mat.len() {
                    let s: f64 = a.mat[i].iter().zip(d.iter()).map(|(m, v)| m * v).sum();
                    a.bias[i] += s;
                }
                for k in kids.iter_mut().flatten() {
                    k.translate(d);
                }
            }
        }
    }
    /// f -> s.f (all terminals scaled; decisions untouched)
    pub fn scale_output(&mut self, sc: f64) {
        match self {
            Spec::T(a) => {
                for r in a.mat.iter_mut() {
                    for v in r.iter_mut() {
                        *v *= sc;
                    }
                }
                for v in a.bias.iter_mut() {
                    *v *= sc;
                }
            }
            Spec::D(_, kids) => {
                for k in kids.iter_mut().flatten() {
                    k.scale_output(sc);
                }
            }
        }
    }
    /// g -> g(./s): decisions A y <= s.c, terminals (M/s) y + c, so that g'(s.y) = g(y)
    pub fn scale_input(&mut self, sc: f64) {
        match self {
            Spec::T(a) => {
                for r in a.mat.iter_mut() {
                    for v in r.iter_mut() {
                        *v /= sc;
                    }
                }
            }
            Spec::D(a, kids) => {
                for v in a.bias.iter_mut() {
                    *v *= sc;
                }
                for k in kids.iter_mut().flatten() {
                    k.scale_input(sc);
                }
            }
        }
    }
    pub fn count(&self) -> usize {
        match self {
            Spec::T(_) => 1,
            Spec::D(_, k) => 1 + k.iter().flatten().map(|c| c.count()).sum::<usize>(),
        }
    }
    pub fn n_decisions(&self) -> usize {
        match self {
            Spec::T(_) => 0,
            Spec::D(_, k) => 1 + k.iter().flatten().map(|c| c.n_decisions()).sum::<usize>(),
        }
    }
    pub fn is_total(&self) -> bool {
        match self {
            Spec::T(_) => true,
            Spec::D(p, k) => {
                let used = 1usize << p.outdim();
                k.iter().take(used).all(|c| c.as_ref().map_or(false, |c| c.is_total()))
            }
        }
    }
}

#[derive(Clone, Debug)]
pub struct TreeCfg {
    pub k: usize,
    pub in_dim: usize,
    pub out_dim: usize,
    pub max_depth: usize,
    /// probability that a child slot of a decision is left empty
    pub p_missing: f64,
    /// probability to stop with a terminal before max depth
    pub p_stop: f64,
    /// probability that a predicate is derived from an ancestor's (parallel / negated) => infeasible paths
    pub p_contra: f64,
    /// probability that both children of a binary decision are equal terminals
    pub p_equal_sibs: f64,
    /// probability of a tautological / all-zero predicate row
    pub p_zero_pred: f64,
    /// allow a terminal as root
    pub allow_leaf_root: bool,
    pub regime: Regime,
}

impl TreeCfg {
    pub fn basic(k: usize, in_dim: usize, out_dim: usize, regime: Regime) -> TreeCfg {
        TreeCfg {
            k,
            in_dim,
            out_dim,
            max_depth: 3,
            p_missing: 0.0,
            p_stop: 0.25,
            p_contra: 0.0,
            p_equal_sibs: 0.0,
            p_zero_pred: 0.0,
            allow_leaf_root: false,
            regime,
        }
    }
}

pub fn spec(rng: &mut Rng, cfg: &TreeCfg) -> Spec {
    let mut anc: Vec<Aff> = Vec::new();
    spec_rec(rng, cfg, 0, &mut anc)
}

fn spec_rec(rng: &mut Rng, cfg: &TreeCfg, depth: usize, anc: &mut Vec<Aff>) -> Spec {
    let stop = depth >= cfg.max_depth
        || (depth > 0 && rng.chance(cfg.p_stop))
        || (depth == 0 && cfg.allow_leaf_root && rng.chance(0.15));
    if stop {
        return Spec::T(aff(rng, cfg.out_dim, cfg.in_dim, cfg.regime));
    }
    let rows = if cfg.k >= 4 && rng.chance(0.5) { 2 } else { 1 };
    let mut p = if !anc.is_empty() && rng.chance(cfg.p_contra) {
        // derive from an ancestor: same normal, shifted or negated => one branch is infeasible
        let a = rng.pick(anc).clone();
        let mut row = a.mat[0].clone();
        let mut b = a.bias[0];
        match rng.below(13) {
            0..=3 => b += rng.int(-2, 2) as f64,
            4..=7 => {
                for v in row.iter_mut() {
                    *v = -*v;
                }
                b = -b + rng.int(-2, 2) as f64;
            }
            12 if cfg.in_dim >= 2 => {
                // nearly (not exactly) opposite normal: the two hyperplanes cross ~1e5 away from the origin
                // and the wedge behind the crossing is a genuine full-dimensional region far out
                for v in row.iter_mut() {
                    *v = -*v;
                }
                let j = rng.below(cfg.in_dim);
                let k = rng.pick(&[15i32, 17, 19]);
                row[j] += if rng.chance(0.5) { 1.0 } else { -1.0 } * 2f64.powi(-*k);
                b = -b + rng.int(-2, 2) as f64;
            }
            _ => {
                for v in row.iter_mut() {
                    *v *= 2.0;
                }
                b = b * 2.0 + rng.int(-1, 1) as f64;
            }
        }
        let mut p = Aff {
            mat: vec![row],
            bias: vec![b],
        };
        if rows == 2 {
            let e = pred(rng, 1, cfg.in_dim, cfg.regime);
            p.mat.push(e.mat[0].clone());
            p.bias.push(e.bias[0]);
        }
        p
    } else {
        pred(rng, rows, cfg.in_dim, cfg.regime)
    };
    if rng.chance(cfg.p_zero_pred) {
        for v in p.mat[0].iter_mut() {
            *v = 0.0;
        }
    }
    let used = 1usize << rows;
    let mut kids: Vec<Option<Box<Spec>>> = (0..cfg.k).map(|_| None).collect();
    if cfg.k == 2 && rng.chance(cfg.p_equal_sibs) {
        let t = aff(rng, cfg.out_dim, cfg.in_dim, cfg.regime);
        kids[0] = Some(Box::new(Spec::T(t.clone())));
        kids[1] = Some(Box::new(Spec::T(t)));
        return Spec::D(p, kids);
    }
    anc.push(Aff {
        mat: vec![p.mat[0].clone()],
        bias: vec![p.bias[0]],
    });
    let mut any = false;
    for l in 0..used {
        if rng.chance(cfg.p_missing) {
            continue;
        }
        kids[l] = Some(Box::new(spec_rec(rng, cfg, depth + 1, anc)));
        any = true;
    }
    if !any {
        // a decision needs at least one branch
        let l = rng.below(used);
        kids[l] = Some(Box::new(spec_rec(rng, cfg, depth + 1, anc)));
    }
    anc.pop();
    Spec::D(p, kids)
}

enum Work<'a> {
    Add(usize, usize, &'a Spec),
    Unblock(usize, usize, &'a Spec),
}

/// Build the library tree through its public manual-construction API. With `scramble` the
/// construction order is randomised and temporary dummy subtrees are inserted and removed so
/// that arena indices are non-contiguous and re-used.
pub fn build<const K: usize>(spec: &Spec, rng: &mut Rng, scramble: bool) -> AffTree<K> {
    let root_aff = match spec {
        Spec::T(a) => a,
        Spec::D(a, _) => a,
    };
    let mut tree = AffTree::<K>::from_aff(root_aff.to_lib());
    let in_dim = root_aff.indim();
    let mut work: Vec<Work> = Vec::new();
    if let Spec::D(_, kids) = spec {
        for (l, c) in kids.iter().enumerate() {
            if let Some(c) = c {
                work.push(Work::Add(0, l, c));
            }
        }
    }
    while !work.is_empty() {
        let i = if scramble { rng.below(work.len()) } else { work.len() - 1 };
        let item = work.swap_remove(i);
        match item {
            Work::Add(parent, label, s) => {
                if scramble && rng.chance(0.3) {
                    // block the slot with a dummy subtree of 1..3 nodes
                    let d = tree
                        .add_child_node(parent, label, AffFunc::from_mats(Array2::zeros((1, in_dim)), Array1::zeros(1)))
                        .unwrap();
                    let extra = rng.below(3);
                    let mut last = d;
                    for _ in 0..extra {
                        last = tree
                            .add_child_node(last, rng.below(K.min(2)), AffFunc::from_mats(Array2::zeros((1, in_dim)), Array1::zeros(1)))
                            .unwrap();
                    }
                    work.push(Work::Unblock(parent, label, s));
                } else {
                    add_node(&mut tree, parent, label, s, &mut work);
                }
            }
            Work::Unblock(parent, label, s) => {
                tree.tree.remove_child(parent, label);
                add_node(&mut tree, parent, label, s, &mut work);
            }
        }
    }
    tree
}

fn add_node<'a, const K: usize>(
    tree: &mut AffTree<K>,
    parent: usize,
    label: usize,
    s: &'a Spec,
    work: &mut Vec<Work<'a>>,
) {
    match s {
        // the three public insertion entry points are used in turn
        Spec::T(a) => {
            if (parent + label) % 2 == 0 {
                tree.add_terminal(parent, label, a.to_lib()).unwrap();
            } else {
                tree.add_child_node(parent, label, a.to_lib()).unwrap();
            }
        }
        Spec::D(a, kids) => {
            let idx = if (parent + label) % 2 == 0 { tree.add_decision(parent, label, a.to_lib()).unwrap() } else { tree.add_child_node(parent, label, a.to_lib()).unwrap() };
            for (l, c) in kids.iter().enumerate() {
                if let Some(c) = c {
                    work.push(Work::Add(idx, l, c));
                }
            }
        }
    }
}

// -----------------------------------------------------------------------------------------
// Probe inputs

pub fn lattice(rng: &mut Rng, dim: usize, radius: i64, step: f64, cap: usize) -> Vec<Vec<f64>> {
    let side = (2 * radius + 1) as usize;
    let total = side.checked_pow(dim as u32).unwrap_or(usize::MAX);
    let mut out = Vec::new();
    if total <= cap {
        for mut i in 0..total {
            let mut p = Vec::with_capacity(dim);
            for _ in 0..dim {
                p.push(((i % side) as i64 - radius) as f64 * step);
                i /= side;
            }
            out.push(p);
        }
    } else {
        for _ in 0..cap {
            out.push((0..dim).map(|_| rng.int(-radius, radius) as f64 * step).collect());
        }
    }
    out
}

pub fn gaussian_points(rng: &mut Rng, dim: usize, n: usize, scale: f64) -> Vec<Vec<f64>> {
    (0..n).map(|_| (0..dim).map(|_| rng.gauss() * scale).collect()).collect()
}

/// Points lying exactly on the hyperplane row.x = b (exactly representable), or none.
pub fn on_hyperplane(rng: &mut Rng, row: &[f64], b: f64, tries: usize) -> Vec<Vec<f64>> {
    let mut out = Vec::new();
    let n = row.len();
    let cands: Vec<usize> = (0..n).filter(|j| row[*j] != 0.0).collect();
    if cands.is_empty() {
        return out;
    }
    for _ in 0..tries {
        let j = *rng.pick(&cands);
        let mut p: Vec<f64> = (0..n).map(|_| rng.int(-6, 6) as f64 * 0.5).collect();
        let mut rest = Q::from_f64(b);
        for i in 0..n {
            if i != j {
                rest = rest.sub(&Q::from_f64(row[i]).mul(&Q::from_f64(p[i])));
            }
        }
        let xj = rest.div(&Q::from_f64(row[j]));
        if xj.is_f64_exact() {
            p[j] = xj.to_f64();
            out.push(p);
        }
    }
    out
}

/// For every node of `s` whose closed path polytope has positive uniform slack: the max-slack
/// point and axis offsets inside the slack ball (binary single-row trees only).
pub fn cell_points(s: &Snap, max_nodes: usize) -> Vec<Vec<f64>> {
    let mut out = Vec::new();
    for (n, (idx, _)) in s.nodes.iter().enumerate() {
        if n >= max_nodes {
            break;
        }
        let sys = match s.path_sys(*idx) {
            Ok(sys) => sys,
            Err(_) => continue,
        };
        if sys.m() == 0 {
            continue;
        }
        if let Ok(c) = lpx::max_slack(&sys, &Q::one()) {
            if c.t.is_pos() {
                let x: Vec<f64> = c.x.iter().map(|q| q.to_f64()).collect();
                let mut norm: f64 = 1.0;
                for r in &sys.a {
                    let n1: f64 = r.iter().map(|q| q.to_f64().abs()).sum();
                    if n1 > norm {
                        norm = n1;
                    }
                }
                let off = 0.5 * c.t.to_f64() / norm;
                out.push(x.clone());
                for j in 0..x.len() {
                    let mut p = x.clone();
                    p[j] += off;
                    out.push(p);
                }
            }
        }
    }
    out
}

/// Hyperplane points for every decision row of the snapshot.
pub fn boundary_points(rng: &mut Rng, s: &Snap, per_row: usize) -> Vec<Vec<f64>> {
    let mut out = Vec::new();
    for (_, n) in s.nodes.iter() {
        if !n.has_children() {
            continue;
        }
        for (row, b) in n.mat.iter().zip(n.bias.iter()) {
            out.extend(on_hyperplane(rng, row, *b, per_row));
        }
    }
    out
}

/// Points a tiny dyadic step (2^-20, 2^-30, 2^-40) off a decision hyperplane, on both sides. The
/// exact value of `row.x - b` is then a tiny non-zero number with the right sign, which exposes any
/// tolerance slipped into the routing predicate.
pub fn near_boundary_points(rng: &mut Rng, s: &Snap, per_row: usize) -> Vec<Vec<f64>> {
    let mut out = Vec::new();
    for (_, n) in s.nodes.iter() {
        if !n.has_children() {
            continue;
        }
        for (row, b) in n.mat.iter().zip(n.bias.iter()) {
            for p in on_hyperplane(rng, row, *b, per_row) {
                let cands: Vec<usize> = (0..row.len()).filter(|j| row[*j] != 0.0).collect();
                if cands.is_empty() {
                    continue;
                }
                let j = *rng.pick(&cands);
                let d = *rng.pick(&[2f64.powi(-20), 2f64.powi(-30), 2f64.powi(-40)]);
                for sgn in [1.0, -1.0] {
                    let mut q = p.clone();
                    q[j] += sgn * d;
                    out.push(q);
                }
            }
        }
    }
    out
}

/// Standard probe set for a collection of snapshots over the same input space.
pub fn probes(rng: &mut Rng, snaps: &[&Snap], dim: usize, budget: usize) -> Vec<Vec<f64>> {
    let mut out = lattice(rng, dim, 3, 1.0, budget / 3 + 1);
    out.extend(lattice(rng, dim, 4, 0.5, budget / 6 + 1));
    for s in snaps {
        if s.k == 2 {
            out.extend(cell_points(s, 40));
        }
        out.extend(boundary_points(rng, s, 2));
        out.extend(near_boundary_points(rng, s, 1));
    }
    out.extend(gaussian_points(rng, dim, budget / 6 + 1, 3.0));
    if out.len() > budget * 2 {
        rng.shuffle(&mut out);
        out.truncate(budget * 2);
    }
    out
}

// -----------------------------------------------------------------------------------------
// Exactness of the library's f64 arithmetic on a given (row, x, b)

/// 2-adic valuation helper: returns (odd-part magnitude bits, exponent) of a dyadic f64
fn dyadic_parts(v: f64) -> Option<(u64, i64)> {
    if v == 0.0 {
        return None;
    }
    let bits = v.to_bits();
    let e = ((bits >> 52) & 0x7ff) as i64;
    let frac = bits & 0x000f_ffff_ffff_ffff;
    let (mut m, mut ex) = if e == 0 { (frac, -1074) } else { (frac | (1 << 52), e - 1075) };
    let tz = m.trailing_zeros() as i64;
    m >>= tz;
    ex += tz;
    Some((m, ex))
}

/// True if `row . x (+/-) b` evaluates exactly in f64 for ANY summation order and any use of
/// fused operations: all products are exact and all terms are multiples of a common 2^g
/// with total magnitude below 2^52 * 2^g.
pub fn order_free_exact(row: &[f64], x: &[f64], b: f64) -> bool {
    let mut terms: Vec<(u128, i64)> = Vec::new();
    for (a, v) in row.iter().zip(x.iter()) {
        if let (Some((ma, ea)), Some((mv, ev))) = (dyadic_parts(*a), dyadic_parts(*v)) {
            let m = (ma as u128) * (mv as u128);
            if m >= (1u128 << 53) {
                return false; // product itself not exactly representable
            }
            terms.push((m, ea + ev));
        }
    }
    if let Some((mb, eb)) = dyadic_parts(b) {
        terms.push((mb as u128, eb));
    }
    if terms.is_empty() {
        return true;
    }
    let g = terms.iter().map(|t| t.1).min().unwrap();
    let mut total: u128 = 0;
    for (m, e) in terms {
        let sh = (e - g) as u32;
        if sh > 60 {
            return false;
        }
        total = match total.checked_add(m << sh) {
            Some(t) => t,
            None => return false,
        };
        if total >= (1u128 << 52) {
            return false;
        }
    }
    g > -1000 && g < 900
}

/// Is the route of `x` through `s` robust against f64 rounding in the library's predicate
/// evaluation? (every decision on the exact route is either order-free exact or has a margin)
pub fn route_rounding_safe(s: &Snap, x: &[f64]) -> bool {
    let xq = qv(x);
    let (_, route) = s.eval_from(s.root, &xq);
    for (n, _) in route {
        let nd = s.node(n);
        for (row, b) in nd.mat.iter().zip(nd.bias.iter()) {
            if order_free_exact(row, x, *b) {
                continue;
            }
            let v = dot(&qv(row), &xq).sub(&Q::from_f64(*b)).to_f64().abs();
            let scale: f64 = row.iter().zip(x.iter()).map(|(a, v)| (a * v).abs()).sum::<f64>() + b.abs();
            if v <= 1e-9 * scale.max(1e-300) {
                return false;
            }
        }
    }
    true
}

/// Compare a library output vector against the exact value. Exact equality is demanded when the
/// terminal's arithmetic is order-free exact, otherwise a relative tolerance.
pub fn value_matches(term_mat: &[Vec<f64>], term_bias: &[f64], x: &[f64], lib: &[f64], exact: &[Q]) -> Result<(), String> {
    if lib.len() != exact.len() {
        return Err(format!("output length {} vs {}", lib.len(), exact.len()));
    }
    for i in 0..lib.len() {
        let e = exact[i].to_f64();
        if term_mat.len() == lib.len() && order_free_exact(&term_mat[i], x, term_bias[i]) {
            if !(lib[i].is_finite() && Q::from_f64(lib[i]) == exact[i]) {
                return Err(format!("component {}: library {:e} != exact {:e} (exact arithmetic case)", i, lib[i], e));
            }
        } else {
            let scale: f64 = if term_mat.len() == lib.len() {
                term_mat[i].iter().zip(x.iter()).map(|(a, v)| (a * v).abs()).sum::<f64>() + term_bias[i].abs()
            } else {
                e.abs()
            };
            if !((lib[i] - e).abs() <= 1e-9 * (1.0 + scale)) {
                return Err(format!("component {}: library {:e} vs exact {:e}", i, lib[i], e));
            }
        }
    }
    Ok(())
}
