//! Per-run evidence collection: counters, distinct non-trivial cases, samples, skips, violations.

use serde_json::{json, Map, Value};
use std::collections::{BTreeMap, HashSet};

#[derive(Clone, Debug)]
pub struct Viol {
    /// case index (replayable with the seed)
    pub case: u64,
    /// signature: call site + symptom (used for de-duplication)
    pub sig: String,
    /// key compared against open entries of known_findings.json
    pub key: String,
    pub detail: Value,
}

#[derive(Default, Debug)]
pub struct Ev {
    pub evaluations: u64,
    pub nontrivial: HashSet<u64>,
    pub counters: BTreeMap<String, u64>,
    pub skips: BTreeMap<String, u64>,
    pub samples: Vec<Value>,
    pub viols: Vec<Viol>,
    pub inconclusive: Vec<String>,
}

pub const MAX_SAMPLES: usize = 4;
pub const MAX_VIOLS_PER_SHARD: usize = 40;

impl Ev {
    pub fn new() -> Ev {
        Ev::default()
    }
    pub fn count(&mut self, key: &str, n: u64) {
        *self.counters.entry(key.to_string()).or_insert(0) += n;
    }
    pub fn inc(&mut self, key: &str) {
        self.count(key, 1);
    }
    pub fn skip(&mut self, reason: &str) {
        *self.skips.entry(reason.to_string()).or_insert(0) += 1;
    }
    pub fn nontrivial(&mut self, hash: u64) {
        self.nontrivial.insert(hash);
    }
    pub fn sample(&mut self, v: Value) {
        if self.samples.len() < MAX_SAMPLES {
            self.samples.push(v);
        }
    }
    pub fn want_sample(&self) -> bool {
        self.samples.len() < MAX_SAMPLES
    }
    pub fn violation(&mut self, case: u64, sig: &str, key: &str, detail: Value) {
        if self.viols.len() < MAX_VIOLS_PER_SHARD {
            self.viols.push(Viol {
                case,
                sig: sig.to_string(),
                key: key.to_string(),
                detail,
            });
        } else {
            self.inc("violations_dropped_over_cap");
        }
    }
    pub fn merge(&mut self, o: Ev) {
        self.evaluations += o.evaluations;
        self.nontrivial.extend(o.nontrivial);
        for (k, v) in o.counters {
            *self.counters.entry(k).or_insert(0) += v;
        }
        for (k, v) in o.skips {
            *self.skips.entry(k).or_insert(0) += v;
        }
        for s in o.samples {
            if self.samples.len() < MAX_SAMPLES {
                self.samples.push(s);
            }
        }
        self.viols.extend(o.viols);
        self.inconclusive.extend(o.inconclusive);
    }
}

pub fn hash64(bytes: &[u8]) -> u64 {
    let mut h: u64 = 0xcbf2_9ce4_8422_2325;
    for b in bytes {
        h ^= *b as u64;
        h = h.wrapping_mul(0x0000_0100_0000_01b3);
    }
    h ^ (h >> 29)
}

pub struct Hasher(pub u64);
impl Hasher {
    pub fn new() -> Hasher {
        Hasher(0xcbf2_9ce4_8422_2325)
    }
    pub fn u(&mut self, v: u64) {
        for b in v.to_le_bytes() {
            self.0 ^= b as u64;
            self.0 = self.0.wrapping_mul(0x0000_0100_0000_01b3);
        }
    }
    pub fn f(&mut self, v: f64) {
        self.u(v.to_bits());
    }
    pub fn s(&mut self, v: &str) {
        for b in v.bytes() {
            self.0 ^= b as u64;
            self.0 = self.0.wrapping_mul(0x0000_0100_0000_01b3);
        }
        self.u(0xff);
    }
    pub fn fin(&self) -> u64 {
        self.0 ^ (self.0 >> 29)
    }
}

pub fn map_to_json(m: &BTreeMap<String, u64>) -> Value {
    let mut o = Map::new();
    for (k, v) in m {
        o.insert(k.clone(), json!(v));
    }
    Value::Object(o)
}

pub fn fvec(v: &[f64]) -> Value {
    Value::Array(v.iter().map(|x| json!(x)).collect())
}
pub fn fmat(v: &[Vec<f64>]) -> Value {
    Value::Array(v.iter().map(|r| fvec(r)).collect())
}
