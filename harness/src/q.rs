//! Exact rational arithmetic for the oracles.
//!
//! `Q` is a normalised fraction. Small values live in a pair of `i128` with checked
//! arithmetic; on overflow the operation is redone on `BigInt`. `Q::from_f64` is exact for
//! every finite f64, so oracle verdicts never depend on rounding.

use num_bigint::BigInt;
use num_integer::Integer;
use num_traits::{One, Signed, ToPrimitive, Zero};
use std::cmp::Ordering;
use std::fmt;

#[derive(Clone, Debug)]
pub enum Q {
    S(i128, i128),
    B(Box<(BigInt, BigInt)>),
}

fn gcd_u128(mut a: u128, mut b: u128) -> u128 {
    if a == 0 {
        return b;
    }
    if b == 0 {
        return a;
    }
    if a <= u64::MAX as u128 && b <= u64::MAX as u128 {
        let (mut x, mut y) = (a as u64, b as u64);
        while y != 0 {
            let t = x % y;
            x = y;
            y = t;
        }
        return x as u128;
    }
    let shift = (a | b).trailing_zeros();
    a >>= a.trailing_zeros();
    loop {
        b >>= b.trailing_zeros();
        if a > b {
            std::mem::swap(&mut a, &mut b);
        }
        b -= a;
        if b == 0 {
            break;
        }
    }
    a << shift
}

impl Q {
    pub fn zero() -> Q {
        Q::S(0, 1)
    }
    pub fn one() -> Q {
        Q::S(1, 1)
    }
    pub fn int(v: i64) -> Q {
        Q::S(v as i128, 1)
    }
    pub fn frac(n: i64, d: i64) -> Q {
        assert!(d != 0);
        Q::small(n as i128, d as i128).unwrap()
    }

    fn small(n: i128, d: i128) -> Option<Q> {
        if d == 0 {
            panic!("Q with zero denominator");
        }
        if n == i128::MIN || d == i128::MIN {
            return None;
        }
        let g = gcd_u128(n.unsigned_abs(), d.unsigned_abs()) as i128;
        let (mut n, mut d) = (n / g, d / g);
        if d < 0 {
            n = -n;
            d = -d;
        }
        Some(Q::S(n, d))
    }

    fn big(n: BigInt, d: BigInt) -> Q {
        assert!(!d.is_zero(), "Q with zero denominator");
        let g = n.gcd(&d);
        let (mut n, mut d) = if g.is_one() { (n, d) } else { (&n / &g, &d / &g) };
        if d.is_negative() {
            n = -n;
            d = -d;
        }
        if let (Some(a), Some(b)) = (n.to_i128(), d.to_i128()) {
            if a != i128::MIN && b != i128::MIN {
                return Q::S(a, b);
            }
        }
        Q::B(Box::new((n, d)))
    }

    fn parts(&self) -> (BigInt, BigInt) {
        match self {
            Q::S(n, d) => (BigInt::from(*n), BigInt::from(*d)),
            Q::B(b) => (b.0.clone(), b.1.clone()),
        }
    }

    /// Exact conversion of a finite f64.
    pub fn from_f64(v: f64) -> Q {
        assert!(v.is_finite(), "Q::from_f64 of non-finite value {}", v);
        if v == 0.0 {
            return Q::zero();
        }
        let bits = v.to_bits();
        let sign: i128 = if (bits >> 63) != 0 { -1 } else { 1 };
        let exp_bits = ((bits >> 52) & 0x7ff) as i64;
        let frac = bits & 0x000f_ffff_ffff_ffff;
        let (mut mant, mut exp) = if exp_bits == 0 {
            (frac as i128, -1074i64)
        } else {
            ((frac | (1u64 << 52)) as i128, exp_bits - 1075)
        };
        let tz = mant.trailing_zeros() as i64;
        mant >>= tz;
        exp += tz;
        if exp >= 0 {
            if exp < 70 {
                return Q::S(sign * (mant << exp), 1);
            }
            return Q::big(BigInt::from(sign * mant) << (exp as usize), BigInt::one());
        }
        let e = (-exp) as usize;
        if e < 126 {
            return Q::S(sign * mant, 1i128 << e);
        }
        Q::big(BigInt::from(sign * mant), BigInt::one() << e)
    }

    pub fn to_f64(&self) -> f64 {
        match self {
            Q::S(n, d) => {
                if n.unsigned_abs() < (1u128 << 53) && d.unsigned_abs() < (1u128 << 53) {
                    *n as f64 / *d as f64
                } else {
                    big_ratio_to_f64(&BigInt::from(*n), &BigInt::from(*d))
                }
            }
            Q::B(b) => big_ratio_to_f64(&b.0, &b.1),
        }
    }

    pub fn is_zero(&self) -> bool {
        match self {
            Q::S(n, _) => *n == 0,
            Q::B(b) => b.0.is_zero(),
        }
    }
    pub fn signum(&self) -> i32 {
        match self {
            Q::S(n, _) => n.signum() as i32,
            Q::B(b) => {
                if b.0.is_zero() {
                    0
                } else if b.0.is_negative() {
                    -1
                } else {
                    1
                }
            }
        }
    }
    pub fn is_neg(&self) -> bool {
        self.signum() < 0
    }
    pub fn is_pos(&self) -> bool {
        self.signum() > 0
    }
    pub fn abs(&self) -> Q {
        if self.is_neg() {
            self.neg()
        } else {
            self.clone()
        }
    }
    pub fn neg(&self) -> Q {
        match self {
            Q::S(n, d) => Q::S(-*n, *d),
            Q::B(b) => Q::B(Box::new((-b.0.clone(), b.1.clone()))),
        }
    }
    pub fn recip(&self) -> Q {
        assert!(!self.is_zero(), "division by zero in Q");
        match self {
            Q::S(n, d) => {
                if *n < 0 {
                    Q::S(-*d, -*n)
                } else {
                    Q::S(*d, *n)
                }
            }
            Q::B(b) => Q::big(b.1.clone(), b.0.clone()),
        }
    }

    pub fn add(&self, o: &Q) -> Q {
        if let (Q::S(a, b), Q::S(c, d)) = (self, o) {
            if b == d {
                if let Some(n) = a.checked_add(*c) {
                    if let Some(q) = Q::small(n, *b) {
                        return q;
                    }
                }
            } else if let (Some(x), Some(y), Some(z)) =
                (a.checked_mul(*d), c.checked_mul(*b), b.checked_mul(*d))
            {
                if let Some(n) = x.checked_add(y) {
                    if let Some(q) = Q::small(n, z) {
                        return q;
                    }
                }
            }
        }
        let (a, b) = self.parts();
        let (c, d) = o.parts();
        Q::big(&a * &d + &c * &b, b * d)
    }
    pub fn sub(&self, o: &Q) -> Q {
        self.add(&o.neg())
    }
    pub fn mul(&self, o: &Q) -> Q {
        if let (Q::S(a, b), Q::S(c, d)) = (self, o) {
            if *a == 0 || *c == 0 {
                return Q::zero();
            }
            // cross-cancel first to keep numbers small
            let g1 = gcd_u128(a.unsigned_abs(), d.unsigned_abs()) as i128;
            let g2 = gcd_u128(c.unsigned_abs(), b.unsigned_abs()) as i128;
            if let (Some(n), Some(m)) = ((a / g1).checked_mul(c / g2), (b / g2).checked_mul(d / g1))
            {
                if n != i128::MIN && m != i128::MIN {
                    return Q::S(n, m);
                }
            }
        }
        let (a, b) = self.parts();
        let (c, d) = o.parts();
        Q::big(a * c, b * d)
    }
    pub fn div(&self, o: &Q) -> Q {
        self.mul(&o.recip())
    }

    pub fn cmp_q(&self, o: &Q) -> Ordering {
        if let (Q::S(a, b), Q::S(c, d)) = (self, o) {
            if b == d {
                return a.cmp(c);
            }
            if let (Some(x), Some(y)) = (a.checked_mul(*d), c.checked_mul(*b)) {
                return x.cmp(&y);
            }
        }
        let (a, b) = self.parts();
        let (c, d) = o.parts();
        (a * d).cmp(&(c * b))
    }
    pub fn le(&self, o: &Q) -> bool {
        self.cmp_q(o) != Ordering::Greater
    }
    pub fn lt(&self, o: &Q) -> bool {
        self.cmp_q(o) == Ordering::Less
    }
    pub fn ge(&self, o: &Q) -> bool {
        self.cmp_q(o) != Ordering::Less
    }
    pub fn gt(&self, o: &Q) -> bool {
        self.cmp_q(o) == Ordering::Greater
    }
    pub fn max_q(&self, o: &Q) -> Q {
        if self.ge(o) {
            self.clone()
        } else {
            o.clone()
        }
    }
    pub fn min_q(&self, o: &Q) -> Q {
        if self.le(o) {
            self.clone()
        } else {
            o.clone()
        }
    }

    /// true iff the value is exactly representable as f64 (round trip is exact)
    pub fn is_f64_exact(&self) -> bool {
        let f = self.to_f64();
        f.is_finite() && Q::from_f64(f) == *self
    }
}

fn big_ratio_to_f64(n: &BigInt, d: &BigInt) -> f64 {
    // scale so that the quotient has ~64 significant bits
    if n.is_zero() {
        return 0.0;
    }
    let nb = n.bits() as i64;
    let db = d.bits() as i64;
    let shift = 64 - (nb - db);
    let q = if shift >= 0 {
        (n << (shift as usize)) / d
    } else {
        n / (d << ((-shift) as usize))
    };
    let qf = q.to_f64().unwrap_or(f64::NAN);
    ldexp(qf, -shift)
}

fn ldexp(mut x: f64, mut e: i64) -> f64 {
    while e > 900 {
        x *= 2f64.powi(900);
        e -= 900;
    }
    while e < -900 {
        x *= 2f64.powi(-900);
        e += 900;
    }
    x * 2f64.powi(e as i32)
}

impl PartialEq for Q {
    fn eq(&self, o: &Q) -> bool {
        self.cmp_q(o) == Ordering::Equal
    }
}
impl Eq for Q {}
impl PartialOrd for Q {
    fn partial_cmp(&self, o: &Q) -> Option<Ordering> {
        Some(self.cmp_q(o))
    }
}
impl Ord for Q {
    fn cmp(&self, o: &Q) -> Ordering {
        self.cmp_q(o)
    }
}

impl fmt::Display for Q {
    fn fmt(&self, f: &mut fmt::Formatter) -> fmt::Result {
        match self {
            Q::S(n, d) => {
                if *d == 1 {
                    write!(f, "{}", n)
                } else {
                    write!(f, "{}/{}", n, d)
                }
            }
            Q::B(b) => write!(f, "{}/{}", b.0, b.1),
        }
    }
}

pub fn qv(v: &[f64]) -> Vec<Q> {
    v.iter().map(|x| Q::from_f64(*x)).collect()
}

pub fn dot(a: &[Q], b: &[Q]) -> Q {
    assert_eq!(a.len(), b.len());
    let mut acc = Q::zero();
    for (x, y) in a.iter().zip(b.iter()) {
        if x.is_zero() || y.is_zero() {
            continue;
        }
        acc = acc.add(&x.mul(y));
    }
    acc
}

pub fn selftest() -> Result<usize, String> {
    let mut n = 0;
    let cases = [
        0.0, -0.0, 1.0, -1.0, 0.5, 0.1, 1e-300, 1e300, 5e-324, f64::MAX, f64::MIN_POSITIVE,
        1.0 / 3.0, -123456.789, 1e-8, 1e-4, 6.0, 1.0 / 6.0,
    ];
    for &c in cases.iter() {
        let q = Q::from_f64(c);
        if q.to_f64() != c {
            return Err(format!("round trip failed for {}", c));
        }
        n += 1;
    }
    let a = Q::frac(1, 3);
    let b = Q::frac(1, 6);
    if a.add(&b) != Q::frac(1, 2) || a.sub(&b) != b || a.mul(&b) != Q::frac(1, 18) || a.div(&b) != Q::int(2) {
        return Err("basic arithmetic".into());
    }
    n += 4;
    // overflow path
    let big = Q::from_f64(1e300);
    let r = big.mul(&big).div(&big);
    if r != big {
        return Err("big arithmetic".into());
    }
    let tiny = Q::from_f64(5e-324);
    if !(tiny.mul(&tiny).is_pos()) || tiny.mul(&tiny).ge(&tiny) {
        return Err("tiny arithmetic".into());
    }
    n += 2;
    // 0.1 + 0.2 != 0.3 exactly
    let s = Q::from_f64(0.1).add(&Q::from_f64(0.2));
    if s == Q::from_f64(0.3) {
        return Err("0.1+0.2 should differ from 0.3 exactly".into());
    }
    if (s.to_f64() - 0.3).abs() > 1e-15 {
        return Err("to_f64 inaccurate".into());
    }
    n += 2;
    // i128 overflow boundaries
    let x = Q::S(i128::MAX / 2, 1);
    let y = x.add(&x).add(&x);
    if y.sub(&x).sub(&x) != x {
        return Err("overflow add".into());
    }
    n += 1;
    Ok(n)
}
