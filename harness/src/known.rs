//! known_findings.json: committed list of genuine defects that are recorded rather than repaired.
//! Never written at run time.

use serde_json::Value;
use std::path::Path;

#[derive(Clone, Debug)]
pub struct Known {
    pub id: String,
    pub property: String,
    pub status: String,
    pub key: String,
    pub summary: String,
    pub witness: Value,
}

pub fn load(root: &Path, prop: &str) -> Vec<Known> {
    let p = root.join("known_findings.json");
    let v: Value = match std::fs::read(&p).ok().and_then(|b| serde_json::from_slice(&b).ok()) {
        Some(v) => v,
        None => return Vec::new(),
    };
    let mut out = Vec::new();
    if let Some(arr) = v.get("findings").and_then(|f| f.as_array()) {
        for f in arr {
            let props: Vec<String> = match f.get("property") {
                Some(Value::String(s)) => vec![s.clone()],
                Some(Value::Array(a)) => a.iter().filter_map(|x| x.as_str().map(|s| s.to_string())).collect(),
                _ => vec![],
            };
            if !props.iter().any(|p| p == prop) {
                continue;
            }
            out.push(Known {
                id: f["id"].as_str().unwrap_or("").to_string(),
                property: prop.to_string(),
                status: f["status"].as_str().unwrap_or("open").to_string(),
                key: f["key"].as_str().unwrap_or("").to_string(),
                summary: f["summary"].as_str().unwrap_or("").to_string(),
                witness: f.get("witness").cloned().unwrap_or(Value::Null),
            });
        }
    }
    out
}
