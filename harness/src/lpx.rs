//! Exact LP oracle: Bland-rule simplex over `Q` producing certificates, and an independent
//! certificate verifier. Every answer returned by this module has been re-checked by the
//! verifier (plain dot products and sign checks); if a certificate does not verify the call
//! returns `Err`, which callers count as `skipped(oracle-error)` — it never becomes a verdict.

use crate::q::{dot, Q};

#[derive(Clone, Debug)]
pub struct Sys {
    pub n: usize,
    pub a: Vec<Vec<Q>>,
    pub b: Vec<Q>,
}

impl Sys {
    pub fn new(n: usize) -> Sys {
        Sys {
            n,
            a: Vec::new(),
            b: Vec::new(),
        }
    }
    pub fn push(&mut self, row: Vec<Q>, b: Q) {
        assert_eq!(row.len(), self.n);
        self.a.push(row);
        self.b.push(b);
    }
    pub fn push_f64(&mut self, row: &[f64], b: f64) {
        self.push(row.iter().map(|x| Q::from_f64(*x)).collect(), Q::from_f64(b));
    }
    pub fn m(&self) -> usize {
        self.a.len()
    }
    pub fn extend(&mut self, other: &Sys) {
        assert_eq!(self.n, other.n);
        for (r, b) in other.a.iter().zip(other.b.iter()) {
            self.push(r.clone(), b.clone());
        }
    }
    /// exact slack b_i - a_i x of every row
    pub fn slacks(&self, x: &[Q]) -> Vec<Q> {
        self.a
            .iter()
            .zip(self.b.iter())
            .map(|(r, b)| b.sub(&dot(r, x)))
            .collect()
    }
    pub fn min_slack(&self, x: &[Q]) -> Option<Q> {
        self.slacks(x).into_iter().min()
    }
    pub fn contains(&self, x: &[Q]) -> bool {
        self.slacks(x).iter().all(|s| !s.is_neg())
    }
}

struct Tab {
    ncols: usize,
    t: Vec<Vec<Q>>,
    rhs: Vec<Q>,
    basis: Vec<usize>,
    obj: Vec<Q>,
    objval: Q,
}

enum Outcome {
    Optimal,
    Unbounded(usize),
}

impl Tab {
    fn pivot(&mut self, r: usize, c: usize) {
        let p = self.t[r][c].clone();
        debug_assert!(!p.is_zero());
        if p != Q::one() {
            let inv = p.recip();
            for v in self.t[r].iter_mut() {
                if !v.is_zero() {
                    *v = v.mul(&inv);
                }
            }
            self.rhs[r] = self.rhs[r].mul(&inv);
        }
        let prow = self.t[r].clone();
        let prhs = self.rhs[r].clone();
        let nz: Vec<usize> = (0..self.ncols).filter(|j| !prow[*j].is_zero()).collect();
        for i in 0..self.t.len() {
            if i == r {
                continue;
            }
            let f = self.t[i][c].clone();
            if f.is_zero() {
                continue;
            }
            for &j in nz.iter() {
                let d = f.mul(&prow[j]);
                self.t[i][j] = self.t[i][j].sub(&d);
            }
            if !prhs.is_zero() {
                self.rhs[i] = self.rhs[i].sub(&f.mul(&prhs));
            }
        }
        let f = self.obj[c].clone();
        if !f.is_zero() {
            for &j in nz.iter() {
                let d = f.mul(&prow[j]);
                self.obj[j] = self.obj[j].sub(&d);
            }
            self.objval = self.objval.add(&f.mul(&prhs));
        }
        self.basis[r] = c;
    }

    fn run(&mut self, max_iter: usize) -> Result<Outcome, String> {
        for _ in 0..max_iter {
            // Bland: entering variable = smallest index with positive reduced cost
            let mut enter = None;
            for j in 0..self.ncols {
                if self.obj[j].is_pos() {
                    enter = Some(j);
                    break;
                }
            }
            let c = match enter {
                None => return Ok(Outcome::Optimal),
                Some(c) => c,
            };
            let mut best: Option<(usize, Q)> = None;
            for i in 0..self.t.len() {
                if self.t[i][c].is_pos() {
                    let ratio = self.rhs[i].div(&self.t[i][c]);
                    let better = match &best {
                        None => true,
                        Some((bi, br)) => {
                            ratio.lt(br) || (ratio == *br && self.basis[i] < self.basis[*bi])
                        }
                    };
                    if better {
                        best = Some((i, ratio));
                    }
                }
            }
            match best {
                None => return Ok(Outcome::Unbounded(c)),
                Some((r, _)) => self.pivot(r, c),
            }
        }
        Err("simplex iteration limit".into())
    }
}

#[derive(Clone, Debug)]
pub struct SlackCert {
    /// min(cap, max{t : A x + t 1 <= b})
    pub t: Q,
    pub x: Vec<Q>,
    /// dual multipliers of the rows of A
    pub y: Vec<Q>,
    /// dual multiplier of the cap row t <= cap
    pub ycap: Q,
}

/// Verifier: (x,t) is feasible for {A x + t <= b, t <= cap}, y >= 0, y^T A = 0,
/// sum(y) + ycap = 1 and y^T b + ycap*cap = t. Then t is the exact optimum.
pub fn verify_slack(sys: &Sys, cap: &Q, c: &SlackCert) -> bool {
    if c.x.len() != sys.n || c.y.len() != sys.m() {
        return false;
    }
    if c.t.gt(cap) {
        return false;
    }
    for s in sys.slacks(&c.x) {
        if s.lt(&c.t) {
            return false;
        }
    }
    if c.ycap.is_neg() || c.y.iter().any(|v| v.is_neg()) {
        return false;
    }
    for j in 0..sys.n {
        let mut acc = Q::zero();
        for i in 0..sys.m() {
            if !c.y[i].is_zero() {
                acc = acc.add(&c.y[i].mul(&sys.a[i][j]));
            }
        }
        if !acc.is_zero() {
            return false;
        }
    }
    let mut sum = c.ycap.clone();
    let mut val = c.ycap.mul(cap);
    for i in 0..sys.m() {
        sum = sum.add(&c.y[i]);
        val = val.add(&c.y[i].mul(&sys.b[i]));
    }
    sum == Q::one() && val == c.t
}

/// Exact capped uniform slack of {A x <= b}.
pub fn max_slack(sys: &Sys, cap: &Q) -> Result<SlackCert, String> {
    let n = sys.n;
    let m = sys.m();
    let rows = m + 1;
    let tp = 2 * n;
    let tm = 2 * n + 1;
    let s0 = 2 * n + 2;
    let ncols = s0 + rows;
    let mut t = vec![vec![Q::zero(); ncols]; rows];
    let mut rhs = Vec::with_capacity(rows);
    for i in 0..m {
        for j in 0..n {
            if !sys.a[i][j].is_zero() {
                t[i][j] = sys.a[i][j].clone();
                t[i][n + j] = sys.a[i][j].neg();
            }
        }
        t[i][tp] = Q::one();
        t[i][tm] = Q::int(-1);
        t[i][s0 + i] = Q::one();
        rhs.push(sys.b[i].clone());
    }
    t[m][tp] = Q::one();
    t[m][tm] = Q::int(-1);
    t[m][s0 + m] = Q::one();
    rhs.push(cap.clone());
    let mut obj = vec![Q::zero(); ncols];
    obj[tp] = Q::one();
    obj[tm] = Q::int(-1);
    let mut tab = Tab {
        ncols,
        t,
        rhs,
        basis: (0..rows).map(|i| s0 + i).collect(),
        obj,
        objval: Q::zero(),
    };
    // make the basis feasible by bringing t^- in at the most negative row
    let mut rmin = 0;
    for i in 1..rows {
        if tab.rhs[i].lt(&tab.rhs[rmin]) {
            rmin = i;
        }
    }
    if tab.rhs[rmin].is_neg() {
        tab.pivot(rmin, tm);
    }
    match tab.run(20_000)? {
        Outcome::Optimal => {}
        Outcome::Unbounded(_) => return Err("capped slack LP reported unbounded".into()),
    }
    let mut vals = vec![Q::zero(); ncols];
    for (i, &bcol) in tab.basis.iter().enumerate() {
        vals[bcol] = tab.rhs[i].clone();
    }
    let x: Vec<Q> = (0..n).map(|j| vals[j].sub(&vals[n + j])).collect();
    let tval = vals[tp].sub(&vals[tm]);
    let y: Vec<Q> = (0..m).map(|i| tab.obj[s0 + i].neg()).collect();
    let ycap = tab.obj[s0 + m].neg();
    let cert = SlackCert {
        t: tval,
        x,
        y,
        ycap,
    };
    if !verify_slack(sys, cap, &cert) {
        return Err("slack certificate failed verification".into());
    }
    Ok(cert)
}

#[derive(Clone, Debug, PartialEq, Eq)]
pub enum Band {
    /// t* >= +band: non-empty by a margin
    Thick,
    /// |t*| < band
    Thin,
    /// t* <= -band: empty by more than the tolerance
    Empty,
}

pub fn band_q() -> Q {
    Q::frac(1, 10_000)
}

/// Classification by exact uniform slack. Rows `0.x <= b` with `b >= 0` are satisfied by every point
/// with no notion of distance; they are left out of the slack computation (otherwise a row
/// `0 <= 0` would make every set look "thin"). The returned certificate refers to the remaining
/// rows (its dual vector is padded with zeros for the rows left out).
pub fn classify(sys: &Sys) -> Result<(Band, SlackCert), String> {
    let taut: Vec<bool> = sys.a.iter().zip(sys.b.iter()).map(|(r, b)| r.iter().all(|v| v.is_zero()) && !b.is_neg()).collect();
    if taut.iter().any(|t| *t) {
        let mut red = Sys::new(sys.n);
        for (i, t) in taut.iter().enumerate() {
            if !*t {
                red.push(sys.a[i].clone(), sys.b[i].clone());
            }
        }
        let (band, c) = classify(&red)?;
        let mut y = Vec::with_capacity(sys.m());
        let mut k = 0;
        for t in taut.iter() {
            if *t {
                y.push(Q::zero());
            } else {
                y.push(c.y[k].clone());
                k += 1;
            }
        }
        return Ok((band, SlackCert { t: c.t, x: c.x, y, ycap: c.ycap }));
    }
    // "Non-empty by a margin" (Thick): there is a point x, |x_j| <= 2^24, at which EVERY row has a slack of at
    // least 1e-4 plus 2^-20 of that row's activity sum_j |a_ij||x_j| + |b_i|. The absolute part is the band of
    // the first design; the relative part says the slack must be significant at the magnitude of the numbers
    // involved, which is what a floating-point LP solver can resolve. History of this criterion (DESIGN.md §8):
    // a purely absolute slack called a sliver of width 1e-4 lying 5e15 away "thick" (oracle error f); a box
    // |x| <= 1e5 fixed that but hid every region beyond it (seeded changes C01-g, C05-g, C06-g/h pruned wide
    // regions 3e6 away unnoticed); with coefficients of 4e5 a wedge touching the box at 1e5 was again called
    // thick although its slack was 1e-15 of the row activity (oracle error i). The activity-relative form
    // covers all three. It is linear in (x, u) with u_j >= |x_j|.
    let band = band_q();
    let n = sys.n;
    let rho = Q::int(1).div(&Q::int(1 << 20));
    // cheap sufficient test first (most thick cells lie near the origin): inside the box |x_j| <= 16 the
    // activity of row i is at most 16 sum_j |a_ij| + |b_i|, a constant
    if n > 0 {
        let b1 = Q::int(16);
        let mut near = Sys::new(n);
        for (row, b) in sys.a.iter().zip(sys.b.iter()) {
            let act = row.iter().fold(b.abs(), |a, v| a.add(&v.abs().mul(&b1)));
            near.push(row.clone(), b.sub(&rho.mul(&act)).sub(&band));
        }
        for j in 0..n {
            for sg in [1i64, -1] {
                let mut r = vec![Q::zero(); n];
                r[j] = Q::int(sg);
                near.push(r, b1.clone());
            }
        }
        let cn = max_slack(&near, &Q::one())?;
        if !cn.t.is_neg() && near.contains(&cn.x) {
            let t = sys.min_slack(&cn.x).unwrap_or_else(Q::one);
            return Ok((Band::Thick, SlackCert { t, x: cn.x, y: vec![Q::zero(); sys.m()], ycap: Q::zero() }));
        }
    }
    // then the emptiness test (empty and thick exclude each other; most non-thick cells are empty)
    let mut norm = Sys::new(sys.n);
    for (row, b) in sys.a.iter().zip(sys.b.iter()) {
        let mx = row.iter().fold(Q::one(), |a, v| a.max_q(&v.abs()));
        norm.push(row.iter().map(|v| v.div(&mx)).collect(), b.div(&mx));
    }
    let cert_norm = max_slack(&norm, &Q::one())?;
    if cert_norm.t.le(&band.neg()) {
        return Ok((Band::Empty, cert_norm));
    }
    if n > 0 {
        let far = Q::int(1 << 24);
        let mut aug = Sys::new(2 * n);
        for (row, b) in sys.a.iter().zip(sys.b.iter()) {
            let mut r = row.clone();
            for v in row.iter() {
                r.push(rho.mul(&v.abs()));
            }
            aug.push(r, b.sub(&rho.mul(&b.abs())).sub(&band));
        }
        for j in 0..n {
            for sg in [1i64, -1] {
                let mut r = vec![Q::zero(); 2 * n];
                r[j] = Q::int(sg);
                r[n + j] = Q::int(-1);
                aug.push(r, Q::zero());
            }
            let mut r = vec![Q::zero(); 2 * n];
            r[n + j] = Q::one();
            aug.push(r, far.clone());
        }
        let ca = max_slack(&aug, &Q::one())?;
        if !ca.t.is_neg() && aug.contains(&ca.x) {
            let x = ca.x[..n].to_vec();
            let t = sys.min_slack(&x).unwrap_or_else(Q::one);
            return Ok((Band::Thick, SlackCert { t, x, y: vec![Q::zero(); sys.m()], ycap: Q::zero() }));
        }
    } else {
        let cert = max_slack(sys, &Q::one())?;
        if cert.t.ge(&band) {
            return Ok((Band::Thick, cert));
        }
    }
    // "Empty by a margin": the uniform slack of the system whose rows are divided by max(1, max_j |a_ij|) is
    // at most -1e-4 (for rows with coefficients <= 1 this is the raw slack; a large row has to be violated by
    // 1e-4 of its own scale, so that the violation is not within the solver's noise). No box: a region the
    // library correctly keeps because it is non-empty far away can never be called empty.
    Ok((Band::Thin, cert_norm))
}

#[derive(Clone, Debug)]
pub enum Feas {
    Feasible(Vec<Q>),
    /// Farkas vector y >= 0, y^T A = 0, y^T b < 0
    Infeasible(Vec<Q>),
}

pub fn verify_farkas(sys: &Sys, y: &[Q]) -> bool {
    if y.len() != sys.m() || y.iter().any(|v| v.is_neg()) {
        return false;
    }
    for j in 0..sys.n {
        let mut acc = Q::zero();
        for i in 0..sys.m() {
            if !y[i].is_zero() {
                acc = acc.add(&y[i].mul(&sys.a[i][j]));
            }
        }
        if !acc.is_zero() {
            return false;
        }
    }
    dot(y, &sys.b).is_neg()
}

pub fn feasibility(sys: &Sys) -> Result<Feas, String> {
    let cert = max_slack(sys, &Q::one())?;
    if !cert.t.is_neg() {
        if !sys.contains(&cert.x) {
            return Err("feasible point failed verification".into());
        }
        Ok(Feas::Feasible(cert.x))
    } else {
        if !verify_farkas(sys, &cert.y) {
            return Err("farkas certificate failed verification".into());
        }
        Ok(Feas::Infeasible(cert.y))
    }
}

#[derive(Clone, Debug)]
pub enum Opt {
    Infeasible(Vec<Q>),
    Unbounded { x0: Vec<Q>, ray: Vec<Q> },
    Optimal { x: Vec<Q>, y: Vec<Q>, value: Q },
}

pub fn verify_opt(sys: &Sys, c: &[Q], x: &[Q], y: &[Q], value: &Q) -> bool {
    if !sys.contains(x) || y.len() != sys.m() || y.iter().any(|v| v.is_neg()) {
        return false;
    }
    for j in 0..sys.n {
        let mut acc = Q::zero();
        for i in 0..sys.m() {
            if !y[i].is_zero() {
                acc = acc.add(&y[i].mul(&sys.a[i][j]));
            }
        }
        if acc != c[j].neg() {
            return false;
        }
    }
    dot(c, x) == *value && dot(y, &sys.b).neg() == *value
}

pub fn verify_ray(sys: &Sys, c: &[Q], x0: &[Q], ray: &[Q]) -> bool {
    if !sys.contains(x0) {
        return false;
    }
    for r in sys.a.iter() {
        if dot(r, ray).is_pos() {
            return false;
        }
    }
    dot(c, ray).is_neg()
}

/// Exact solution of min c.x s.t. A x <= b.
pub fn minimize(sys: &Sys, c: &[Q]) -> Result<Opt, String> {
    assert_eq!(c.len(), sys.n);
    let x0 = match feasibility(sys)? {
        Feas::Infeasible(y) => return Ok(Opt::Infeasible(y)),
        Feas::Feasible(x) => x,
    };
    let n = sys.n;
    let m = sys.m();
    let s0 = 2 * n;
    let ncols = s0 + m;
    let mut t = vec![vec![Q::zero(); ncols]; m];
    let mut rhs = Vec::with_capacity(m);
    let sl = sys.slacks(&x0);
    for i in 0..m {
        for j in 0..n {
            if !sys.a[i][j].is_zero() {
                t[i][j] = sys.a[i][j].clone();
                t[i][n + j] = sys.a[i][j].neg();
            }
        }
        t[i][s0 + i] = Q::one();
        rhs.push(sl[i].clone());
    }
    let mut obj = vec![Q::zero(); ncols];
    for j in 0..n {
        obj[j] = c[j].neg();
        obj[n + j] = c[j].clone();
    }
    let mut tab = Tab {
        ncols,
        t,
        rhs,
        basis: (0..m).map(|i| s0 + i).collect(),
        obj,
        objval: Q::zero(),
    };
    match tab.run(20_000)? {
        Outcome::Optimal => {
            let mut vals = vec![Q::zero(); ncols];
            for (i, &bcol) in tab.basis.iter().enumerate() {
                vals[bcol] = tab.rhs[i].clone();
            }
            let x: Vec<Q> = (0..n)
                .map(|j| x0[j].add(&vals[j]).sub(&vals[n + j]))
                .collect();
            let y: Vec<Q> = (0..m).map(|i| tab.obj[s0 + i].neg()).collect();
            let value = dot(c, &x);
            if !verify_opt(sys, c, &x, &y, &value) {
                return Err("optimality certificate failed verification".into());
            }
            Ok(Opt::Optimal { x, y, value })
        }
        Outcome::Unbounded(col) => {
            let mut ray_v = vec![Q::zero(); ncols];
            ray_v[col] = Q::one();
            for (i, &bcol) in tab.basis.iter().enumerate() {
                ray_v[bcol] = tab.t[i][col].neg();
            }
            let ray: Vec<Q> = (0..n).map(|j| ray_v[j].sub(&ray_v[n + j])).collect();
            if !verify_ray(sys, c, &x0, &ray) {
                return Err("unboundedness certificate failed verification".into());
            }
            Ok(Opt::Unbounded { x0, ray })
        }
    }
}

/// Does {A x <= b} imply row.x <= beta ? (vacuously true for an empty set)
/// Returns (implied, exact maximum of row.x if it exists)
pub fn implies(sys: &Sys, row: &[Q], beta: &Q) -> Result<(bool, Option<Q>), String> {
    let neg: Vec<Q> = row.iter().map(|v| v.neg()).collect();
    match minimize(sys, &neg)? {
        Opt::Infeasible(_) => Ok((true, None)),
        Opt::Unbounded { .. } => Ok((false, None)),
        Opt::Optimal { value, .. } => {
            let mx = value.neg();
            Ok((mx.le(beta), Some(mx)))
        }
    }
}

/// Exact inclusion P ⊆ P'.
pub fn subset(p: &Sys, p2: &Sys) -> Result<bool, String> {
    for (r, b) in p2.a.iter().zip(p2.b.iter()) {
        if !implies(p, r, b)?.0 {
            return Ok(false);
        }
    }
    Ok(true)
}

pub fn same_set(p: &Sys, p2: &Sys) -> Result<bool, String> {
    Ok(subset(p, p2)? && subset(p2, p)?)
}

/// Exact rank of a matrix by Gaussian elimination.
pub fn rank(rows: &[Vec<Q>], n: usize) -> usize {
    let mut m: Vec<Vec<Q>> = rows.to_vec();
    let mut r = 0;
    for c in 0..n {
        let mut piv = None;
        for i in r..m.len() {
            if !m[i][c].is_zero() {
                piv = Some(i);
                break;
            }
        }
        let p = match piv {
            None => continue,
            Some(p) => p,
        };
        m.swap(r, p);
        let pr = m[r].clone();
        for i in (r + 1)..m.len() {
            if m[i][c].is_zero() {
                continue;
            }
            let f = m[i][c].div(&pr[c]);
            for j in c..n {
                let d = f.mul(&pr[j]);
                m[i][j] = m[i][j].sub(&d);
            }
        }
        r += 1;
        if r == m.len() {
            break;
        }
    }
    r
}

// ---------------------------------------------------------------------------------------
// Selftest: compare against brute-force vertex enumeration on tiny random instances.

fn solve_square(a: &[Vec<Q>], b: &[Q]) -> Option<Vec<Q>> {
    let n = b.len();
    let mut m: Vec<Vec<Q>> = a
        .iter()
        .zip(b.iter())
        .map(|(r, v)| {
            let mut r = r.clone();
            r.push(v.clone());
            r
        })
        .collect();
    for c in 0..n {
        let p = (c..n).find(|&i| !m[i][c].is_zero())?;
        m.swap(c, p);
        let inv = m[c][c].recip();
        for j in c..=n {
            m[c][j] = m[c][j].mul(&inv);
        }
        for i in 0..n {
            if i != c && !m[i][c].is_zero() {
                let f = m[i][c].clone();
                for j in c..=n {
                    let d = f.mul(&m[c][j]);
                    m[i][j] = m[i][j].sub(&d);
                }
            }
        }
    }
    Some((0..n).map(|i| m[i][n].clone()).collect())
}

fn subsets(m: usize, k: usize) -> Vec<Vec<usize>> {
    let mut out = Vec::new();
    let mut cur = Vec::new();
    fn rec(start: usize, m: usize, k: usize, cur: &mut Vec<usize>, out: &mut Vec<Vec<usize>>) {
        if cur.len() == k {
            out.push(cur.clone());
            return;
        }
        for i in start..m {
            cur.push(i);
            rec(i + 1, m, k, cur, out);
            cur.pop();
        }
    }
    rec(0, m, k, &mut cur, &mut out);
    out
}

/// Brute force for bounded problems: enumerate all basic solutions of the capped slack LP.
fn brute_slack(sys: &Sys, cap: &Q) -> Option<Q> {
    // variables (x, t); constraints a_i x + t <= b_i, t <= cap, plus a bounding box |x_j| <= 1000
    let n = sys.n + 1;
    let mut a: Vec<Vec<Q>> = Vec::new();
    let mut b: Vec<Q> = Vec::new();
    for i in 0..sys.m() {
        let mut r = sys.a[i].clone();
        r.push(Q::one());
        a.push(r);
        b.push(sys.b[i].clone());
    }
    let mut r = vec![Q::zero(); n];
    r[n - 1] = Q::one();
    a.push(r);
    b.push(cap.clone());
    for j in 0..sys.n {
        for s in [1i64, -1] {
            let mut r = vec![Q::zero(); n];
            r[j] = Q::int(s);
            a.push(r);
            b.push(Q::int(1000));
        }
    }
    let mut best: Option<Q> = None;
    for sub in subsets(a.len(), n) {
        let aa: Vec<Vec<Q>> = sub.iter().map(|&i| a[i].clone()).collect();
        let bb: Vec<Q> = sub.iter().map(|&i| b[i].clone()).collect();
        if let Some(p) = solve_square(&aa, &bb) {
            let ok = a.iter().zip(b.iter()).all(|(r, v)| dot(r, &p).le(v));
            if ok {
                let t = p[n - 1].clone();
                if best.as_ref().map_or(true, |bst| t.gt(bst)) {
                    best = Some(t);
                }
            }
        }
    }
    best
}

pub fn selftest(seed: u64) -> Result<usize, String> {
    use crate::rng::Rng;
    let mut checked = 0;
    let mut rng = Rng::derive(seed, "lpx-selftest", 0);
    for it in 0..400 {
        let n = 1 + rng.below(3);
        let m = 1 + rng.below(6);
        let mut sys = Sys::new(n);
        // bounded box so that brute force (vertex enumeration) is complete
        for j in 0..n {
            for s in [1i64, -1] {
                let mut r = vec![Q::zero(); n];
                r[j] = Q::int(s);
                sys.push(r, Q::int(rng.int(1, 6)));
            }
        }
        for _ in 0..m {
            let r: Vec<Q> = (0..n).map(|_| Q::frac(rng.int(-4, 4), 1 << rng.below(3))).collect();
            sys.push(r, Q::frac(rng.int(-8, 8), 1 << rng.below(3)));
        }
        let cap = Q::one();
        let cert = max_slack(&sys, &cap).map_err(|e| format!("it {}: {}", it, e))?;
        let brute = brute_slack(&sys, &cap).ok_or("brute force found no vertex")?;
        if cert.t != brute {
            return Err(format!(
                "slack mismatch at it {}: simplex {} vs brute {} sys={:?}",
                it, cert.t, brute, sys
            ));
        }
        // optimisation against brute force over vertices of the (bounded) polytope
        let c: Vec<Q> = (0..n).map(|_| Q::int(rng.int(-3, 3))).collect();
        match minimize(&sys, &c)? {
            Opt::Infeasible(_) => {
                if !brute.is_neg() {
                    return Err(format!("it {}: minimize says infeasible, brute slack {}", it, brute));
                }
            }
            Opt::Unbounded { .. } => return Err(format!("it {}: bounded problem reported unbounded", it)),
            Opt::Optimal { value, .. } => {
                if brute.is_neg() {
                    return Err(format!("it {}: minimize says optimal on empty set", it));
                }
                let mut best: Option<Q> = None;
                for sub in subsets(sys.m(), n) {
                    let aa: Vec<Vec<Q>> = sub.iter().map(|&i| sys.a[i].clone()).collect();
                    let bb: Vec<Q> = sub.iter().map(|&i| sys.b[i].clone()).collect();
                    if let Some(p) = solve_square(&aa, &bb) {
                        if sys.contains(&p) {
                            let v = dot(&c, &p);
                            if best.as_ref().map_or(true, |b| v.lt(b)) {
                                best = Some(v);
                            }
                        }
                    }
                }
                let best = best.ok_or("no vertex")?;
                if best != value {
                    return Err(format!("it {}: optimum mismatch {} vs {}", it, value, best));
                }
            }
        }
        checked += 1;
    }
    // unbounded / lineality cases
    let mut s = Sys::new(2);
    s.push(vec![Q::one(), Q::zero()], Q::one());
    match minimize(&s, &[Q::int(-1), Q::zero()])? {
        Opt::Optimal { value, .. } if value == Q::int(-1) => {}
        o => return Err(format!("min -x0 s.t. x0<=1 in R^2: {:?}", o)),
    }
    match minimize(&s, &[Q::int(1), Q::zero()])? {
        Opt::Unbounded { .. } => {}
        o => return Err(format!("min x0 s.t. x0<=1: {:?}", o)),
    }
    match minimize(&s, &[Q::zero(), Q::int(1)])? {
        Opt::Unbounded { .. } => {}
        o => return Err(format!("min x1 s.t. x0<=1: {:?}", o)),
    }
    if rank(&s.a, 2) != 1 {
        return Err("rank".into());
    }
    let mut e = Sys::new(2);
    e.push(vec![Q::one(), Q::zero()], Q::int(-5));
    e.push(vec![Q::int(-1), Q::zero()], Q::int(1));
    match feasibility(&e)? {
        Feas::Infeasible(_) => {}
        _ => return Err("x<=-5, x>=-1 should be infeasible".into()),
    }
    let (b, c) = classify(&e)?;
    if b != Band::Empty || c.t != Q::int(-2) {
        return Err(format!("classify empty: {:?} t={}", b, c.t));
    }
    // zero rows
    let mut z = Sys::new(2);
    z.push(vec![Q::zero(), Q::zero()], Q::int(-1));
    match feasibility(&z)? {
        Feas::Infeasible(_) => {}
        _ => return Err("0<=-1 should be infeasible".into()),
    }
    let z0 = Sys::new(3);
    let (b, _) = classify(&z0)?;
    if b != Band::Thick {
        return Err("no rows should be thick".into());
    }
    checked += 8;
    Ok(checked)
}
