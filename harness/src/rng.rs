//! Deterministic PRNG (splitmix64). Every random choice of the harness derives from VERIF_SEED.

#[derive(Clone, Debug)]
pub struct Rng {
    state: u64,
    /// "large case" flag: set by a monitor for a fraction of the thorough-tier cases; generators
    /// consult it to draw bigger shapes (deeper trees, more dimensions, longer histories)
    pub big: bool,
}

impl Rng {
    pub fn new(seed: u64) -> Rng {
        let mut r = Rng {
            state: seed ^ 0x9E37_79B9_7F4A_7C15,
            big: false,
        };
        r.u64();
        r
    }

    /// Derive an independent stream for a (tag, index) pair.
    pub fn derive(seed: u64, tag: &str, index: u64) -> Rng {
        let mut h: u64 = 0xcbf2_9ce4_8422_2325;
        for b in tag.bytes() {
            h ^= b as u64;
            h = h.wrapping_mul(0x0000_0100_0000_01b3);
        }
        let mut r = Rng::new(seed.wrapping_mul(0xD6E8_FEB8_6659_FD93) ^ h);
        r.state = r.state.wrapping_add(index.wrapping_mul(0xA24B_AED4_963E_E407));
        r.u64();
        r.u64();
        r
    }

    pub fn u64(&mut self) -> u64 {
        self.state = self.state.wrapping_add(0x9E37_79B9_7F4A_7C15);
        let mut z = self.state;
        z = (z ^ (z >> 30)).wrapping_mul(0xBF58_476D_1CE4_E5B9);
        z = (z ^ (z >> 27)).wrapping_mul(0x94D0_49BB_1331_11EB);
        z ^ (z >> 31)
    }

    /// Uniform in 0..n (n > 0).
    pub fn below(&mut self, n: usize) -> usize {
        assert!(n > 0);
        (self.u64() % (n as u64)) as usize
    }

    /// Uniform integer in lo..=hi.
    pub fn int(&mut self, lo: i64, hi: i64) -> i64 {
        assert!(lo <= hi);
        lo + (self.u64() % ((hi - lo + 1) as u64)) as i64
    }

    pub fn unit(&mut self) -> f64 {
        (self.u64() >> 11) as f64 / (1u64 << 53) as f64
    }

    pub fn chance(&mut self, p: f64) -> bool {
        self.unit() < p
    }

    pub fn pick<'a, T>(&mut self, items: &'a [T]) -> &'a T {
        &items[self.below(items.len())]
    }

    pub fn gauss(&mut self) -> f64 {
        let u1 = self.unit().max(1e-300);
        let u2 = self.unit();
        (-2.0 * u1.ln()).sqrt() * (2.0 * std::f64::consts::PI * u2).cos()
    }

    pub fn shuffle<T>(&mut self, items: &mut [T]) {
        for i in (1..items.len()).rev() {
            let j = self.below(i + 1);
            items.swap(i, j);
        }
    }
}
