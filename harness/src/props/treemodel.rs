//! Executable reference model of the arena tree (used by C12 / C13) and raw snapshots of
//! `Tree<u32, K>` taken through `node_iter()`.

use affinitree::tree::graph::Tree;
use std::collections::BTreeMap;

#[derive(Clone, Debug, PartialEq)]
pub struct MNode {
    pub value: u32,
    pub parent: Option<usize>,
    pub children: Vec<Option<usize>>,
}

#[derive(Clone, Debug, PartialEq)]
pub struct Model {
    pub k: usize,
    pub root: usize,
    pub nodes: BTreeMap<usize, MNode>,
}

#[derive(Clone, Debug, PartialEq)]
pub struct TSnap {
    pub len: usize,
    pub root: usize,
    /// idx -> (value, parent, children, isleaf)
    pub nodes: BTreeMap<usize, (u32, Option<usize>, Vec<Option<usize>>, bool)>,
}

pub fn tsnap<const K: usize>(t: &Tree<u32, K>) -> TSnap {
    let mut nodes = BTreeMap::new();
    for (i, n) in t.node_iter() {
        nodes.insert(i, (n.value, n.parent, n.children.to_vec(), n.isleaf));
    }
    TSnap {
        len: t.len(),
        root: t.get_root_idx(),
        nodes,
    }
}

impl Model {
    pub fn new(k: usize, root: usize, value: u32) -> Model {
        let mut nodes = BTreeMap::new();
        nodes.insert(
            root,
            MNode {
                value,
                parent: None,
                children: vec![None; k],
            },
        );
        Model { k, root, nodes }
    }
    pub fn subtree(&self, idx: usize) -> Vec<usize> {
        // pre-order, children by ascending label
        let mut out = Vec::new();
        let mut stack = vec![idx];
        while let Some(i) = stack.pop() {
            out.push(i);
            for c in self.nodes[&i].children.iter().rev().flatten() {
                stack.push(*c);
            }
        }
        out
    }
    pub fn depth(&self, idx: usize) -> usize {
        let mut d = 0;
        let mut cur = idx;
        while let Some(p) = self.nodes[&cur].parent {
            d += 1;
            cur = p;
        }
        d
    }
    pub fn label_in_parent(&self, idx: usize) -> Option<(usize, usize)> {
        let p = self.nodes[&idx].parent?;
        let l = self.nodes[&p].children.iter().position(|c| *c == Some(idx))?;
        Some((p, l))
    }
    pub fn remove_descendants(&mut self, idx: usize) -> usize {
        let sub = self.subtree(idx);
        for i in sub.iter().skip(1) {
            self.nodes.remove(i);
        }
        for c in self.nodes.get_mut(&idx).unwrap().children.iter_mut() {
            *c = None;
        }
        sub.len() - 1
    }
    /// compare against a snapshot of the real tree
    pub fn diff(&self, s: &TSnap) -> Option<String> {
        if s.len != self.nodes.len() {
            return Some(format!("len() = {} but model has {} nodes", s.len, self.nodes.len()));
        }
        if s.nodes.len() != self.nodes.len() {
            return Some(format!("arena iterates {} nodes, model has {}", s.nodes.len(), self.nodes.len()));
        }
        if s.root != self.root {
            return Some(format!("root {} vs model {}", s.root, self.root));
        }
        for (i, m) in &self.nodes {
            match s.nodes.get(i) {
                None => return Some(format!("node {} missing in real tree", i)),
                Some((v, p, c, leaf)) => {
                    if *v != m.value {
                        return Some(format!("node {}: value {} vs model {}", i, v, m.value));
                    }
                    if *p != m.parent {
                        return Some(format!("node {}: parent {:?} vs model {:?}", i, p, m.parent));
                    }
                    if *c != m.children {
                        return Some(format!("node {}: children {:?} vs model {:?}", i, c, m.children));
                    }
                    let mleaf = m.children.iter().all(|c| c.is_none());
                    if *leaf != mleaf {
                        return Some(format!("node {}: isleaf {} but model has leaf={}", i, leaf, mleaf));
                    }
                }
            }
        }
        None
    }
}

impl TSnap {
    /// invariant walker independent of the model (S8 tree level)
    pub fn wf(&self) -> Result<(), String> {
        if self.len != self.nodes.len() {
            return Err(format!("len() {} != arena nodes {}", self.len, self.nodes.len()));
        }
        let mut parentless = 0;
        for (i, (_, p, c, leaf)) in &self.nodes {
            if p.is_none() {
                parentless += 1;
            }
            if *leaf != c.iter().all(|x| x.is_none()) {
                return Err(format!("node {}: isleaf flag {} inconsistent with children {:?}", i, leaf, c));
            }
            if let Some(p) = p {
                match self.nodes.get(p) {
                    None => return Err(format!("node {}: parent {} not stored", i, p)),
                    Some((_, _, pc, _)) => {
                        if pc.iter().filter(|x| **x == Some(*i)).count() != 1 {
                            return Err(format!("node {}: parent {} does not list it exactly once", i, p));
                        }
                    }
                }
            }
            for ch in c.iter().flatten() {
                match self.nodes.get(ch) {
                    None => return Err(format!("node {}: child {} not stored", i, ch)),
                    Some((_, cp, _, _)) => {
                        if *cp != Some(*i) {
                            return Err(format!("node {}: child {} has parent {:?}", i, ch, cp));
                        }
                    }
                }
            }
        }
        if parentless != 1 {
            return Err(format!("{} parent-less nodes", parentless));
        }
        match self.nodes.get(&self.root) {
            Some((_, None, _, _)) => {}
            _ => return Err("root index is not the parent-less node".into()),
        }
        // reachability
        let mut seen = std::collections::BTreeSet::new();
        let mut stack = vec![self.root];
        while let Some(i) = stack.pop() {
            if !seen.insert(i) {
                return Err(format!("node {} reached twice", i));
            }
            for c in self.nodes[&i].2.iter().flatten() {
                stack.push(*c);
            }
        }
        if seen.len() != self.nodes.len() {
            return Err(format!("{} reachable of {} stored nodes", seen.len(), self.nodes.len()));
        }
        Ok(())
    }
}

/// Build a random tree through the real API, mirrored in the model; interleaved removals make
/// arena indices non-contiguous and re-used. Returns (tree, model).
pub fn random_tree<const K: usize>(rng: &mut crate::rng::Rng, target: usize, removals: bool) -> (Tree<u32, K>, Model) {
    let mut t = Tree::<u32, K>::new();
    let r = t.add_root(1000);
    let mut m = Model::new(K, r, 1000);
    let mut next_val = 1;
    let steps = target * 2 + 2;
    for _ in 0..steps {
        if m.nodes.len() >= target && !rng.chance(0.2) {
            break;
        }
        let ids: Vec<usize> = m.nodes.keys().cloned().collect();
        if removals && m.nodes.len() > 3 && rng.chance(0.2) {
            // remove a random non-root child
            let cand: Vec<usize> = ids.iter().cloned().filter(|i| *i != m.root).collect();
            let c = *rng.pick(&cand);
            let (p, l) = m.label_in_parent(c).unwrap();
            if t.try_remove_child(p, l).is_ok() {
                m.remove_descendants(c);
                m.nodes.remove(&c);
                m.nodes.get_mut(&p).unwrap().children[l] = None;
            }
            continue;
        }
        let p = *rng.pick(&ids);
        let free: Vec<usize> = (0..K).filter(|l| m.nodes[&p].children[*l].is_none()).collect();
        if free.is_empty() {
            continue;
        }
        let l = *rng.pick(&free);
        if let Ok(idx) = t.add_child_node(p, l, next_val) {
            m.nodes.insert(
                idx,
                MNode {
                    value: next_val,
                    parent: Some(p),
                    children: vec![None; K],
                },
            );
            m.nodes.get_mut(&p).unwrap().children[l] = Some(idx);
            next_val += 1;
        }
    }
    // leave holes in the arena: removals at the very end are not filled up again
    if removals && rng.chance(0.5) {
        for _ in 0..(1 + rng.below(2)) {
            let cand: Vec<usize> = m.nodes.keys().cloned().filter(|i| *i != m.root).collect();
            if cand.len() < 2 {
                break;
            }
            let c = *rng.pick(&cand);
            let (p, l) = m.label_in_parent(c).unwrap();
            if t.try_remove_child(p, l).is_ok() {
                m.remove_descendants(c);
                m.nodes.remove(&c);
                m.nodes.get_mut(&p).unwrap().children[l] = None;
            }
        }
    }
    (t, m)
}
