//! C03 — pruning never changes the represented (partial) function.
//!
//! (a) infeasible_elimination on trees with histories, (b) compose::<true> vs compose::<false>,
//! (c) the arithmetic operators (delegated to the C07 comparator with partial operands).
//! Oracle: exact before/after comparison on thick cells (S5) + complete removed-node audit with
//! exact emptiness classification of every removed subtree.

use super::common::*;
use crate::ev::{Ev, Hasher};
use crate::gen::{self, Regime, TreeCfg};
use crate::lpx::Band;
use crate::rng::Rng;
use crate::snap::{snap, Snap};
use crate::util::lib;
use crate::Ctx;
use affinitree::distill::schema;
use affinitree::pwl::afftree::AffTree;
use serde_json::json;
use std::collections::BTreeSet;

pub fn run_case(ctx: &Ctx, case: u64, ev: &mut Ev) {
    let mut rng = Rng::derive(ctx.seed, "C03", case);
    rng.big = crate::draw_big(ctx, &mut rng);
    match rng.below(10) {
        0..=4 => run_elim(case, &mut rng, ev),
        5..=7 => run_compose(case, &mut rng, ev),
        _ => super::c07::run_pair(case, &mut rng, ev, "c03", true),
    }
}

pub fn regime(rng: &mut Rng) -> Regime {
    match rng.below(10) {
        0..=4 => Regime::Int,
        5..=7 => Regime::Dyadic,
        _ => Regime::Short,
    }
}

/// A binary tree with a history: random spec tree or affine root, followed by random
/// unpruned/pruned compositions and eliminations, so that nodes carry cached states.
pub fn tree_with_history(rng: &mut Rng, case: u64, ev: &mut Ev, partial_bias: bool) -> Option<(AffTree<2>, Vec<String>)> {
    let rg = regime(rng);
    let n = if rng.chance(0.1) { 4 } else { 1 + rng.below(3) };
    let m = 1 + rng.below(3);
    let mut hist = Vec::new();
    let mut cfg = TreeCfg::basic(2, n, m, rg);
    cfg.max_depth = if rng.big || rng.chance(0.1) { 5 + rng.below(2) } else { rng.below(4) };
    cfg.allow_leaf_root = true;
    cfg.p_missing = if partial_bias || rng.chance(0.4) { 0.3 } else { 0.0 };
    cfg.p_contra = if rng.chance(0.6) { 0.5 } else { 0.0 };
    cfg.p_zero_pred = if rng.chance(0.1) { 0.2 } else { 0.0 };
    let mut sp = gen::spec(rng, &cfg);
    let scr = rng.chance(0.4);
    let far = if rng.chance(0.06) { Some(gen::far_shift(rng, n)) } else { None };
    if let Some(d) = &far {
        sp.translate(d);
        ev.inc("trees_translated_far_from_the_origin");
    }
    let mut t = gen::build::<2>(&sp, rng, scr);
    hist.push(format!("spec tree depth<={} missing={} contra={} regime={}{}", cfg.max_depth, cfg.p_missing, cfg.p_contra, rg.name(), far.map_or(String::new(), |d| format!(" translated by {:?}", d))));
    let steps = rng.below(if rng.big { 6 } else { 4 });
    let mut out_dim = m;
    for _ in 0..steps {
        if t.len() > 150 {
            break;
        }
        let r = rng.below(10);
        let res = if r < 4 {
            // unpruned composition with a schema tree on a random row
            let row = rng.below(out_dim);
            let g = match rng.below(4) {
                0 => schema::partial_ReLU(out_dim, row),
                1 => schema::partial_leaky_ReLU(out_dim, row, 0.5),
                2 => schema::partial_hard_tanh(out_dim, row, -1.0, 1.0),
                _ => schema::partial_threshold(out_dim, row, 1.0, 0.0),
            };
            let mut g = g;
            if rng.chance(0.3) {
                g.infeasible_elimination();
                hist.push("compose::<false>(schema, pre-eliminated)".into());
            } else {
                hist.push("compose::<false>(schema)".into());
            }
            lib(case, "compose::<false> (history)", || t.compose::<false, false>(&g))
        } else if r < 6 {
            let od = 1 + rng.below(3);
            let mut cg = TreeCfg::basic(2, out_dim, od, rg);
            cg.max_depth = 1 + rng.below(2);
            cg.p_missing = if rng.chance(0.4) { 0.3 } else { 0.0 };
            let gs = gen::spec(rng, &cg);
            let mut g = gen::build::<2>(&gs, rng, false);
            if rng.chance(0.3) {
                g.infeasible_elimination();
            }
            out_dim = cg.out_dim;
            hist.push(format!("compose::<false>(random tree, missing={})", cg.p_missing));
            lib(case, "compose::<false> (history)", || t.compose::<false, false>(&g))
        } else if r < 8 {
            hist.push("infeasible_elimination".into());
            lib(case, "infeasible_elimination (history)", || {
                t.infeasible_elimination();
            })
        } else {
            let od = 1 + rng.below(3);
            let a = gen::aff(rng, od, out_dim, rg);
            out_dim = a.outdim();
            hist.push("apply_func".into());
            lib(case, "apply_func (history)", || t.apply_func(&a.to_lib()))
        };
        if let Err(p) = res {
            // a panic while preparing the history is the subject of C04, not of this check
            ev.skip(&format!("history step panicked: {}", crate::util::panic_sig(&p)));
            return None;
        }
    }
    // the history itself may have broken the tree (C04's subject); C03 needs a well-formed start
    if snap(&t).wf_aff(None).is_err() {
        ev.skip("history produced a malformed tree (C04's subject)");
        return None;
    }
    Some((t, hist))
}

/// Index-level audit of an in-place pruning: which nodes disappeared and was that allowed?
pub fn audit_removed(b: &Snap, a: &Snap, ev: &mut Ev) -> Result<(), (String, String)> {
    // survivors keep index and function
    for (i, an) in &a.nodes {
        let bn = match b.nodes.get(i) {
            Some(n) => n,
            None => return Err(("new-node".into(), format!("node {} exists after pruning but not before", i))),
        };
        if !an.same_aff(bn) {
            return Err(("function-changed".into(), format!("node {} holds a different function after pruning", i)));
        }
        if bn.has_children() && !an.has_children() {
            return Err((
                "decision-lost-all-children".into(),
                format!("decision {} lost all its children and is now a terminal holding its predicate", i),
            ));
        }
        if !bn.has_children() && an.has_children() {
            return Err(("terminal-got-children".into(), format!("terminal {} has children after pruning", i)));
        }
        // path after must be a subsequence of the path before
        let pa = a.path(*i).map_err(|e| ("broken-after".to_string(), e))?;
        let pb = b.path(*i).map_err(|e| ("broken-before".to_string(), e))?;
        let mut j = 0;
        for step in &pa {
            while j < pb.len() && pb[j] != *step {
                j += 1;
            }
            if j == pb.len() {
                return Err(("path-invented".into(), format!("node {}: path after pruning {:?} is not a subsequence of the path before {:?}", i, pa, pb)));
            }
            j += 1;
        }
        // dropped ancestors = forwarded decisions
        for step in &pb {
            if !pa.contains(step) {
                let d = step.0;
                if a.nodes.contains_key(&d) {
                    return Err(("ancestor-bypassed".into(), format!("node {}: ancestor {} survives but is no longer on its path", i, d)));
                }
                let dn = b.node(d);
                if dn.n_children() != 2 {
                    return Err(("skipped-partial-decision".into(), format!("decision {} was skipped although it had a missing branch", d)));
                }
            }
        }
    }
    // removed nodes
    let removed: BTreeSet<usize> = b.nodes.keys().filter(|i| !a.nodes.contains_key(i)).cloned().collect();
    let survivors_paths: BTreeSet<usize> = a
        .nodes
        .keys()
        .flat_map(|i| b.path(*i).unwrap_or_default().into_iter().map(|s| s.0))
        .collect();
    for r in &removed {
        let forwarded = survivors_paths.contains(r); // a removed node on the before-path of a survivor
        if forwarded {
            ev.inc("decisions_forwarded");
            continue;
        }
        // top of a removed subtree? (parent survives, or parent was forwarded)
        let parent = b.node(*r).parent;
        let is_top = match parent {
            None => true,
            Some(p) => a.nodes.contains_key(&p) || survivors_paths.contains(&p),
        };
        if !is_top {
            continue;
        }
        ev.inc("subtrees_removed");
        let sys = b.path_sys(*r).map_err(|e| ("path".to_string(), e))?;
        match crate::lpx::classify(&sys) {
            Ok((Band::Thick, cert)) => {
                return Err((
                    "reachable-node-removed".into(),
                    format!("node {} was removed although its path region is non-empty by a margin (uniform slack {} at {:?})", r, cert.t.to_f64(), cert.x.iter().map(|q| q.to_f64()).collect::<Vec<_>>()),
                ));
            }
            Ok((Band::Thin, _)) => ev.inc("removed_thin_regions"),
            Ok((Band::Empty, _)) => ev.inc("removed_regions_certified_empty"),
            Err(_) => ev.skip("oracle-error"),
        }
    }
    Ok(())
}

fn run_elim(case: u64, rng: &mut Rng, ev: &mut Ev) {
    let (t, hist) = match tree_with_history(rng, case, ev, false) {
        Some(x) => x,
        None => return,
    };
    ev.evaluations += 1;
    let before = snap(&t);
    let mut after_t = t.clone();
    let desc = json!({"kind": "infeasible_elimination", "history": hist, "before": before.to_json()});
    let counter = match lib(case, "infeasible_elimination", || after_t.infeasible_elimination()) {
        Ok(c) => c,
        Err(p) => {
            ev.violation(case, "c03:elim:panic", "", json!({"case": desc, "panic": p}));
            return;
        }
    };
    let after = snap(&after_t);
    if let Err(e) = after.wf_tree() {
        ev.violation(case, "c03:elim:malformed", "", json!({"case": desc, "problem": e}));
        return;
    }
    if let Err((sig, msg)) = audit_removed(&before, &after, ev) {
        ev.violation(case, &format!("c03:elim:audit:{}", sig), "", json!({"case": desc, "after": after.to_json(), "problem": msg}));
        return;
    }
    let pts = gen::probes(rng, &[&before], before.in_dim, 40);
    if let Err((sig, msg)) = compare_pruned(&before, &after, &pts, ev) {
        ev.violation(case, &format!("c03:elim:function:{}", sig), "", json!({"case": desc, "after": after.to_json(), "problem": msg}));
        return;
    }
    ev.count("lps_solved_by_library", counter.lps_solved as u64);
    ev.count("nodes_inherited_witness", counter.parent_sol_inherited as u64);
    let removed = before.nodes.len() - after.nodes.len();
    ev.count("nodes_removed", removed as u64);
    if removed > 0 {
        let mut h = Hasher::new();
        h.u(before.structural_hash());
        ev.nontrivial(h.fin());
        if before.nodes.values().any(|n| n.has_children() && n.n_children() < 2) {
            ev.inc("nontrivial_partial_tree_cases");
        }
        if before.nodes.values().any(|n| n.state != crate::snap::SState::Indet) {
            ev.inc("nontrivial_cached_state_cases");
        }
    }
    if ev.want_sample() && removed > 0 {
        ev.sample(json!({"kind": "infeasible_elimination", "history": hist, "nodes_before": before.nodes.len(), "nodes_after": after.nodes.len(), "before": before.to_json()}));
    }
}

fn run_compose(case: u64, rng: &mut Rng, ev: &mut Ev) {
    let (mut f, mut hist) = match tree_with_history(rng, case, ev, false) {
        Some(x) => x,
        None => return,
    };
    // 8 %: large weights - f' = s.f and (below) g' = g(./s) with s = 2^17 or 2^20: the composed predicates
    // and path polytopes then have coefficients and biases of magnitude 1e5 .. 1e6
    // (the scale is chosen so that no coefficient of the composition exceeds about 2^22: beyond 1e7 .. 1e8 the
    // LP backend itself becomes unreliable on rows of mixed magnitude - observed, see DESIGN.md L2 - and a
    // wrong "infeasible" there is the solver's tolerance, which the property exempts)
    let mut big_scale: Option<f64> = None;
    if rng.chance(0.08) {
        let fsn = snap(&f);
        let fmax = fsn.nodes.values().flat_map(|n| n.mat.iter().flatten().chain(n.bias.iter())).fold(1.0f64, |a, v| a.max(v.abs()));
        // g's own coefficients are at most ~10
        let room = (2f64.powi(22) / (fmax * 10.0)).log2().floor() as i32;
        if room >= 14 {
            big_scale = Some(2f64.powi(room.min(20)));
        }
    }
    if let Some(sc) = big_scale {
        let od = match snap(&f).wf_aff(None) {
            Ok(d) => d,
            Err(_) => return,
        };
        let mut a = gen::Aff::identity(od);
        for i in 0..od {
            a.mat[i][i] = sc;
        }
        if lib(case, "apply_func (scaling, history)", || f.apply_func(&a.to_lib())).is_err() {
            return;
        }
        hist.push(format!("apply_func(x -> {} x)", sc));
        ev.inc("compositions_with_large_weights");
    }
    let fs = snap(&f);
    let out_dim = match fs.wf_aff(None) {
        Ok(d) => d,
        Err(_) => return,
    };
    let rg = regime(rng);
    let od = 1 + rng.below(3);
    let mut cg = TreeCfg::basic(2, out_dim, od, rg);
    cg.max_depth = 1 + rng.below(3);
    cg.p_missing = if rng.chance(0.5) { 0.3 } else { 0.0 };
    cg.p_contra = if rng.chance(0.3) { 0.4 } else { 0.0 };
    cg.allow_leaf_root = true;
    let g = if big_scale.is_none() && rng.chance(0.3) {
        let row = rng.below(out_dim);
        match rng.below(3) {
            0 => schema::partial_ReLU(out_dim, row),
            1 => schema::partial_hard_tanh(out_dim, row, -1.0, 1.0),
            _ => schema::partial_hard_sigmoid(out_dim, row),
        }
    } else {
        let mut gs = gen::spec(rng, &cg);
        if let Some(sc) = big_scale {
            gs.scale_input(sc);
        }
        gen::build::<2>(&gs, rng, false)
    };
    let gsn = snap(&g);
    ev.evaluations += 1;
    let desc = json!({"kind": "compose::<true> vs compose::<false>", "history": hist, "f": fs.to_json(), "g": gsn.to_json()});
    let mut hu = f.clone();
    if let Err(p) = lib(case, "compose::<false,false>", || hu.compose::<false, false>(&g)) {
        ev.skip(&format!("unpruned composition panicked (C02/C04 subject): {}", crate::util::panic_sig(&p)));
        return;
    }
    let mut hp = f.clone();
    // the VERBOSE const parameter only adds a progress bar: one case in eight runs the pruned side with it
    let verbose = case % 8 == 3;
    if verbose {
        ev.inc("pruned_compositions_with_verbose_flag");
    }
    if let Err(p) = lib(case, "compose::<true,_>", || if verbose { hp.compose::<true, true>(&g) } else { hp.compose::<true, false>(&g) }) {
        ev.violation(case, "c03:compose:panic", "", json!({"case": desc, "panic": p}));
        return;
    }
    let us = snap(&hu);
    let ps = snap(&hp);
    if snap(&g) != gsn {
        ev.violation(case, "c03:compose:right-operand-changed", "", json!({"case": desc}));
        return;
    }
    if let Err(e) = ps.wf_tree() {
        ev.violation(case, "c03:compose:malformed", "", json!({"case": desc, "problem": e}));
        return;
    }
    // surviving nodes of f keep their indices and (if decisions) their predicates
    for (i, n) in &fs.nodes {
        if n.has_children() {
            match ps.nodes.get(i) {
                Some(pn) if pn.same_aff(n) => {}
                Some(_) => {
                    ev.violation(case, "c03:compose:f-decision-changed", "", json!({"case": desc, "node": i}));
                    return;
                }
                None => {}
            }
        }
    }
    let pts = gen::probes(rng, &[&us], us.in_dim, 40);
    if let Err((sig, msg)) = compare_pruned(&us, &ps, &pts, ev) {
        ev.violation(case, &format!("c03:compose:function:{}", sig), "", json!({"case": desc, "pruned": ps.to_json(), "problem": msg}));
        return;
    }
    // no terminal-looking former decision: every childless node of the pruned tree must hold a
    // function that the unpruned tree also holds at a childless node (nothing invented)
    let unpruned_terms: Vec<&crate::snap::SNode> = us.nodes.values().filter(|n| !n.has_children()).collect();
    for (i, n) in &ps.nodes {
        if !n.has_children() && !unpruned_terms.iter().any(|u| u.same_aff(n)) {
            ev.violation(
                case,
                "c03:compose:terminal-invented",
                "",
                json!({"case": desc, "pruned": ps.to_json(), "problem": format!("childless node {} of the pruned result holds a function that is no terminal of the unpruned result (a decision that lost all branches?)", i)}),
            );
            return;
        }
    }
    let saved = us.nodes.len() as i64 - ps.nodes.len() as i64;
    ev.count("nodes_saved_by_pruning", saved.max(0) as u64);
    if saved > 0 {
        let mut h = Hasher::new();
        h.u(fs.structural_hash());
        h.u(gsn.structural_hash());
        ev.nontrivial(h.fin());
        ev.inc("nontrivial_compose_cases");
    }
    if ev.want_sample() && saved > 0 {
        ev.sample(json!({"kind": "compose::<true> vs <false>", "history": hist, "unpruned_nodes": us.nodes.len(), "pruned_nodes": ps.nodes.len(), "g": gsn.to_json()}));
    }
}
