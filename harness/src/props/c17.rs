//! C17 — predefined trees equal their mathematical definitions everywhere.
//!
//! Oracle: textbook definitions written here, evaluated exactly; the library tree is evaluated
//! both with its own `evaluate` and with the independent exact evaluator on its snapshot.

use crate::ev::{Ev, Hasher};
use crate::gen::{self, arr1, Aff, Regime};
use crate::q::{qv, Q};
use crate::rng::Rng;
use crate::snap::{snap, Ev as TEv};
use crate::util::lib;
use crate::Ctx;
use affinitree::distill::schema;
use affinitree::pwl::afftree::AffTree;
use serde_json::{json, Value};

#[derive(Clone, Debug)]
enum Kind {
    Relu,
    Leaky(f64),
    HardTanh(f64, f64),
    HardShrink(f64),
    HardSigmoid,
    Threshold(f64, f64),
    Argmax,
    ClassChar(usize),
    InfNorm(Option<f64>, Option<f64>),
}

const ALPHAS: [f64; 5] = [0.0, 0.5, 1.0, 2.0, -1.0];
const TANH: [(f64, f64); 5] = [(-1.0, 1.0), (0.0, 0.0), (-2.0, -1.0), (0.5, 3.0), (-0.5, 0.5)];
const LAMBDAS: [f64; 4] = [0.0, 0.5, 1.0, 3.0];
const THRESH: [(f64, f64); 5] = [(0.0, 0.0), (1.0, -2.0), (-0.5, 7.0), (2.0, 2.0), (-1.0, 0.5)];
const BOUNDS: [(Option<f64>, Option<f64>); 6] = [
    (Some(-1.0), Some(1.0)),
    (Some(0.0), Some(2.0)),
    (Some(-0.5), None),
    (None, Some(1.5)),
    (Some(1.0), Some(1.0)),
    (None, Some(-1.0)),
];

fn kinds() -> Vec<Kind> {
    let mut v = vec![Kind::Relu, Kind::HardSigmoid, Kind::Argmax];
    for a in ALPHAS {
        v.push(Kind::Leaky(a));
    }
    for (a, b) in TANH {
        v.push(Kind::HardTanh(a, b));
    }
    for l in LAMBDAS {
        v.push(Kind::HardShrink(l));
    }
    for (t, val) in THRESH {
        v.push(Kind::Threshold(t, val));
    }
    for c in 0..4 {
        v.push(Kind::ClassChar(c));
    }
    for (a, b) in BOUNDS {
        v.push(Kind::InfNorm(a, b));
    }
    v
}

fn breakpoints(k: &Kind) -> Vec<f64> {
    match k {
        Kind::Relu | Kind::Leaky(_) => vec![0.0],
        Kind::HardTanh(a, b) => vec![*a, *b],
        Kind::HardShrink(l) => vec![*l, -*l],
        Kind::HardSigmoid => vec![-3.0, 3.0],
        Kind::Threshold(t, _) => vec![*t],
        Kind::Argmax | Kind::ClassChar(_) => vec![0.0, 1.0],
        Kind::InfNorm(a, b) => a.iter().chain(b.iter()).cloned().collect(),
    }
}

fn scalar_def(k: &Kind, x: &Q) -> Q {
    match k {
        Kind::Relu => x.max_q(&Q::zero()),
        Kind::Leaky(a) => {
            if x.is_pos() {
                x.clone()
            } else {
                x.mul(&Q::from_f64(*a))
            }
        }
        Kind::HardTanh(a, b) => x.max_q(&Q::from_f64(*a)).min_q(&Q::from_f64(*b)),
        Kind::HardShrink(l) => {
            if x.abs().gt(&Q::from_f64(*l)) {
                x.clone()
            } else {
                Q::zero()
            }
        }
        Kind::HardSigmoid => {
            if x.le(&Q::int(-3)) {
                Q::zero()
            } else if x.ge(&Q::int(3)) {
                Q::one()
            } else {
                x.div(&Q::int(6)).add(&Q::frac(1, 2))
            }
        }
        Kind::Threshold(t, v) => {
            if x.gt(&Q::from_f64(*t)) {
                x.clone()
            } else {
                Q::from_f64(*v)
            }
        }
        _ => unreachable!(),
    }
}

fn definition(k: &Kind, row: usize, x: &[Q]) -> Vec<Q> {
    match k {
        Kind::Argmax => {
            let mut best = 0;
            for i in 1..x.len() {
                if x[i].gt(&x[best]) {
                    best = i;
                }
            }
            vec![Q::int(best as i64)]
        }
        Kind::ClassChar(c) => {
            let is_max = x.iter().all(|v| v.le(&x[*c]));
            vec![if is_max { Q::one() } else { Q::zero() }]
        }
        Kind::InfNorm(a, b) => {
            let ok = x.iter().all(|v| a.map_or(true, |a| v.ge(&Q::from_f64(a))) && b.map_or(true, |b| v.le(&Q::from_f64(b))));
            vec![if ok { Q::one() } else { Q::zero() }]
        }
        _ => {
            let mut out = x.to_vec();
            out[row] = scalar_def(k, &x[row]);
            out
        }
    }
}

fn build(k: &Kind, dim: usize, row: usize) -> AffTree<2> {
    match k {
        Kind::Relu => schema::partial_ReLU(dim, row),
        Kind::Leaky(a) => schema::partial_leaky_ReLU(dim, row, *a),
        Kind::HardTanh(a, b) => schema::partial_hard_tanh(dim, row, *a, *b),
        Kind::HardShrink(l) => schema::partial_hard_shrink(dim, row, *l),
        Kind::HardSigmoid => schema::partial_hard_sigmoid(dim, row),
        Kind::Threshold(t, v) => schema::partial_threshold(dim, row, *t, *v),
        Kind::Argmax => schema::argmax(dim),
        Kind::ClassChar(c) => schema::class_characterization(dim, *c),
        Kind::InfNorm(a, b) => schema::inf_norm(dim, *a, *b),
    }
}

fn inputs(rng: &mut Rng, k: &Kind, dim: usize, cap: usize) -> (Vec<Vec<f64>>, bool) {
    let mut vals: Vec<f64> = vec![0.0];
    for bp in breakpoints(k) {
        for d in [-1.0, -0.5, 0.0, 0.5, 1.0] {
            vals.push(bp + d);
        }
    }
    vals.sort_by(|a, b| a.partial_cmp(b).unwrap());
    vals.dedup();
    let total = vals.len().checked_pow(dim as u32).unwrap_or(usize::MAX);
    let mut out = Vec::new();
    let full = total <= cap;
    if full {
        for mut i in 0..total {
            let mut p = Vec::with_capacity(dim);
            for _ in 0..dim {
                p.push(vals[i % vals.len()]);
                i /= vals.len();
            }
            out.push(p);
        }
    } else {
        for _ in 0..cap {
            out.push((0..dim).map(|_| *rng.pick(&vals)).collect());
        }
    }
    for _ in 0..20 {
        out.push((0..dim).map(|_| rng.gauss() * 3.0).collect());
    }
    // a tiny dyadic step beside every breakpoint / tie (exposes tolerances slipped into a predicate)
    for bp in breakpoints(k) {
        for d in [2f64.powi(-30), -(2f64.powi(-30)), 2f64.powi(-45), -(2f64.powi(-45))] {
            let mut p: Vec<f64> = (0..dim).map(|_| *rng.pick(&vals)).collect();
            let j = rng.below(dim);
            p[j] = bp + d;
            out.push(p.clone());
            // for the comparison-based kinds: two components that differ by the tiny step
            if dim >= 2 {
                let i = (j + 1) % dim;
                let base = *rng.pick(&vals);
                p[i] = base;
                p[j] = base + d;
                out.push(p);
            }
        }
    }
    (out, full)
}

/// compare library evaluate() and the snapshot evaluator with the expected exact output
pub fn check_eval(tree: &AffTree<2>, x: &[f64], expect: Option<&[Q]>, tol: f64, case: u64) -> Result<(), String> {
    let s = snap(tree);
    let xq = qv(x);
    let exact = s.eval(&xq);
    let libv = lib(case, "evaluate", || tree.evaluate(&arr1(x))).map_err(|p| format!("evaluate panicked: {}", p))?;
    match (expect, &exact, &libv) {
        (None, TEv::Undef(..), None) => Ok(()),
        (None, e, l) => Err(format!("x={:?}: expected undefined, tree (exact walk) gives {}, evaluate() gives {:?}", x, e.brief(), l.as_ref().map(|v| v.to_vec()))),
        (Some(exp), TEv::Val(_, got), Some(l)) => {
            if got.len() != exp.len() || l.len() != exp.len() {
                return Err(format!("x={:?}: output dimension {} / {} expected {}", x, got.len(), l.len(), exp.len()));
            }
            for i in 0..exp.len() {
                let ok_exact = if tol == 0.0 { got[i] == exp[i] } else { (got[i].to_f64() - exp[i].to_f64()).abs() <= tol };
                let ok_lib = (l[i] - exp[i].to_f64()).abs() <= tol.max(1e-12 * (1.0 + exp[i].to_f64().abs()));
                if !ok_exact || !ok_lib {
                    return Err(format!(
                        "x={:?}: component {}: definition {} but tree gives {} (exact walk) / {} (evaluate)",
                        x,
                        i,
                        exp[i].to_f64(),
                        got[i].to_f64(),
                        l[i]
                    ));
                }
            }
            Ok(())
        }
        (Some(exp), e, l) => Err(format!(
            "x={:?}: expected {:?} but tree (exact walk) gives {} and evaluate() gives {:?}",
            x,
            exp.iter().map(|q| q.to_f64()).collect::<Vec<_>>(),
            e.brief(),
            l.as_ref().map(|v| v.to_vec())
        )),
    }
}

pub fn run_case(ctx: &Ctx, case: u64, ev: &mut Ev) {
    let mut rng = Rng::derive(ctx.seed, "C17", case);
    rng.big = crate::draw_big(ctx, &mut rng);
    let ks = kinds();
    // grid part: kind x dim (1..4 / 2..5) x row ; then random extras
    let grid = ks.len() * 4 * 4;
    if (case as usize) < grid {
        let k = ks[case as usize % ks.len()].clone();
        let rest = case as usize / ks.len();
        let dim_i = rest % 4;
        let row_i = (rest / 4) % 4;
        run_schema(case, &mut rng, ev, k, dim_i, row_i, true);
    } else {
        match rng.below(10) {
            0..=3 => {
                let k = rng.pick(&ks).clone();
                let dim_i = rng.below(5);
                let row_i = rng.below(6);
                run_schema(case, &mut rng, ev, k, dim_i, row_i, false);
            }
            4..=6 => run_from_poly(case, &mut rng, ev),
            _ => run_slice(case, &mut rng, ev),
        }
    }
}

fn run_schema(case: u64, rng: &mut Rng, ev: &mut Ev, k: Kind, dim_i: usize, row_i: usize, grid: bool) {
    let multi = matches!(k, Kind::Argmax | Kind::ClassChar(_));
    let dim = if multi { 2 + dim_i } else { 1 + dim_i };
    let row = row_i % dim;
    let k = match k {
        Kind::ClassChar(c) => Kind::ClassChar(c % dim),
        o => o,
    };
    let desc = json!({"schema": format!("{:?}", k), "dim": dim, "row": row});
    ev.evaluations += 1;
    let tree = match lib(case, "schema constructor", || build(&k, dim, row)) {
        Ok(t) => t,
        Err(p) => {
            ev.violation(case, "c17:schema:panic", "", json!({"case": desc, "panic": p}));
            return;
        }
    };
    let (pts, full) = inputs(rng, &k, dim, if grid { 4000 } else { 600 });
    let tol = if matches!(k, Kind::HardSigmoid) { 1e-12 } else { 0.0 };
    let mut touched = false;
    for x in &pts {
        let xq = qv(x);
        let exp = definition(&k, row, &xq);
        if let Err(e) = check_eval(&tree, x, Some(&exp), tol, case) {
            let name = format!("{:?}", k);
            let name = name.split('(').next().unwrap().to_string();
            ev.violation(case, &format!("c17:{}", name), "", json!({"case": desc, "problem": e}));
            return;
        }
        ev.inc("inputs_checked");
        let bps = breakpoints(&k);
        if multi {
            let mx = xq.iter().max().unwrap();
            if xq.iter().filter(|v| *v == mx).count() > 1 {
                touched = true;
                ev.inc("tie_inputs");
            }
        } else if matches!(k, Kind::InfNorm(..)) {
            if x.iter().any(|v| bps.contains(v)) {
                touched = true;
                ev.inc("breakpoint_inputs");
            }
        } else if bps.contains(&x[row]) {
            touched = true;
            ev.inc("breakpoint_inputs");
        }
    }
    if full {
        ev.inc("full_product_lattices");
    }
    if touched {
        let mut h = Hasher::new();
        h.s(&format!("{:?}", k));
        h.u(dim as u64);
        h.u(row as u64);
        ev.nontrivial(h.fin());
    }
    if ev.want_sample() {
        ev.sample(desc);
    }
}

fn run_from_poly(case: u64, rng: &mut Rng, ev: &mut Ev) {
    let n = 1 + rng.below(4);
    let rg = if rng.chance(0.7) { Regime::Int } else { Regime::Dyadic };
    let m = 1 + rng.below(4);
    let mut p = gen::pred(rng, m, n, rg);
    for b in p.bias.iter_mut() {
        *b = b.abs() + 1.0;
    }
    // degenerate rows: 0.x <= b holds everywhere (b >= 0) or nowhere (b < 0, e.g. Polytope::empty)
    if rng.chance(0.2) {
        let i = rng.below(m);
        for v in p.mat[i].iter_mut() {
            *v = 0.0;
        }
        p.bias[i] = *rng.pick(&[-1.0, -0.5, 1.0, 0.0, -0.0, -3.0]);
    }
    // 8 %: the polytope is written in other units - every row and its bias multiplied by the same power of
    // two between 2^-70 and 2^520 (exact; the same set)
    if rng.chance(0.08) {
        let sc = 2f64.powi(*rng.pick(&[-70, -40, 60, 200, 520]));
        for i in 0..p.mat.len() {
            for v in p.mat[i].iter_mut() {
                *v *= sc;
            }
            p.bias[i] *= sc;
        }
    }
    let out = 1 + rng.below(2);
    let ft = gen::aff(rng, out, n, rg);
    let ff = if rng.chance(0.5) { Some(gen::aff(rng, out, n, rg)) } else { None };
    let desc = json!({"from_poly": p.json(), "func_true": ft.json(), "func_false": ff.as_ref().map(|f| f.json())});
    ev.evaluations += 1;
    let fl = ff.as_ref().map(|f| f.to_lib());
    let tree = match lib(case, "from_poly", || AffTree::<2>::from_poly(p.to_poly(), ft.to_lib(), fl.as_ref())) {
        Ok(Ok(t)) => t,
        Ok(Err(e)) => {
            ev.violation(case, "c17:from_poly:err", "", json!({"case": desc, "error": format!("{}", e)}));
            return;
        }
        Err(pm) => {
            ev.violation(case, "c17:from_poly:panic", "", json!({"case": desc, "panic": pm}));
            return;
        }
    };
    if tree.in_dim() != n {
        ev.violation(case, "c17:from_poly:in_dim", "", json!({"case": desc, "in_dim": tree.in_dim(), "expected": n}));
        return;
    }
    let mut pts = gen::lattice(rng, n, 3, 1.0, 80);
    pts.extend(gen::lattice(rng, n, 4, 0.5, 40));
    let mut nb = 0;
    for (r, b) in p.mat.iter().zip(p.bias.iter()) {
        let hp = gen::on_hyperplane(rng, r, *b, 3);
        nb += hp.len();
        pts.extend(hp);
    }
    let sys = p.sys();
    for x in &pts {
        let xq = qv(x);
        let inside = sys.contains(&xq);
        let exp: Option<Vec<Q>> = if inside { Some(ft.apply_q(&xq)) } else { ff.as_ref().map(|f| f.apply_q(&xq)) };
        if let Err(e) = check_eval(&tree, x, exp.as_deref(), 0.0, case) {
            ev.violation(case, if ff.is_some() { "c17:from_poly:else" } else { "c17:from_poly:partial" }, "", json!({"case": desc, "problem": e}));
            return;
        }
        ev.inc("inputs_checked");
    }
    ev.count("breakpoint_inputs", nb as u64);
    if nb > 0 {
        let mut h = Hasher::new();
        h.s(&desc.to_string());
        ev.nontrivial(h.fin());
    }
    if ev.want_sample() {
        ev.sample(desc);
    }
}

fn run_slice(case: u64, rng: &mut Rng, ev: &mut Ev) {
    let n = 2 + rng.below(3);
    let mut cfg = gen::TreeCfg::basic(2, n, 1 + rng.below(2), Regime::Int);
    cfg.max_depth = 1 + rng.below(3);
    cfg.p_missing = if rng.chance(0.3) { 0.2 } else { 0.0 };
    cfg.allow_leaf_root = true;
    let spec = gen::spec(rng, &cfg);
    let t = gen::build::<2>(&spec, rng, false);
    let ts = snap(&t);
    // reference point: NaN = keep axis
    let mut refp: Vec<f64> = (0..n).map(|_| if rng.chance(0.5) { f64::NAN } else { rng.int(-3, 3) as f64 * 0.5 }).collect();
    if refp.iter().all(|v| !v.is_nan()) {
        let i = rng.below(n);
        refp[i] = f64::NAN;
    }
    let kept: Vec<usize> = (0..n).filter(|i| refp[*i].is_nan()).collect();
    let desc: Value = json!({"tree": ts.to_json(), "reference_point": refp.iter().map(|v| if v.is_nan() { json!("NaN") } else { json!(v) }).collect::<Vec<_>>()});
    ev.evaluations += 1;
    // 40 %: prune the sliced tree before the axes are removed (index holes, cached states)
    let prune = rng.chance(0.4);
    let mut unpruned: Option<crate::snap::Snap> = None;
    let res = lib(case, "from_slice+compose(+infeasible_elimination)+remove_axes", || {
        let mut s = AffTree::<2>::from_slice(&arr1(&refp));
        s.compose::<false, false>(&t);
        if prune {
            unpruned = Some(snap(&s));
            s.infeasible_elimination();
        }
        let mask = ndarray::Array1::from(refp.iter().map(|v| v.is_nan()).collect::<Vec<bool>>());
        s.remove_axes(&mask).map(|_| s)
    });
    let s = match res {
        Ok(Ok(s)) => s,
        Ok(Err(e)) => {
            ev.violation(case, "c17:slice:err", "", json!({"case": desc, "error": format!("{}", e)}));
            return;
        }
        Err(pm) => {
            ev.violation(case, "c17:slice:panic", "", json!({"case": desc, "panic": pm}));
            return;
        }
    };
    if s.in_dim() != kept.len() {
        ev.violation(case, "c17:slice:dim", "", json!({"case": desc, "in_dim": s.in_dim(), "expected": kept.len()}));
        return;
    }
    let mut pts = gen::lattice(rng, kept.len(), 3, 1.0, 60);
    pts.extend(gen::lattice(rng, kept.len(), 4, 0.5, 40));
    let mut thick_cache: std::collections::BTreeMap<usize, bool> = std::collections::BTreeMap::new();
    for xs in &pts {
        let mut full = refp.clone();
        for (j, i) in kept.iter().enumerate() {
            full[*i] = xs[j];
        }
        let exp = match ts.eval(&qv(&full)) {
            TEv::Val(_, v) => Some(v),
            TEv::Undef(..) => None,
            TEv::Broken(b) => {
                ev.skip(&format!("reference tree broken: {}", b));
                return;
            }
        };
        if let Some(su) = &unpruned {
            // after pruning only inputs in a cell that is non-empty by a margin are asserted (S5)
            let thick = match su.eval(&qv(&full)) {
                TEv::Val(node, _) => *thick_cache.entry(node).or_insert_with(|| {
                    su.path_sys(node).ok().and_then(|sys| crate::lpx::classify(&sys).ok()).map_or(false, |(b, _)| b == crate::lpx::Band::Thick)
                }),
                _ => false,
            };
            if !thick {
                ev.skip("pruned slice: input in a thin or undefined cell (S5)");
                continue;
            }
            ev.inc("inputs_checked_after_pruned_slice");
        }
        if let Err(e) = check_eval(&s, xs, exp.as_deref(), 0.0, case) {
            ev.violation(case, "c17:slice", "", json!({"case": desc, "embedded_point": full, "problem": e}));
            return;
        }
        ev.inc("inputs_checked");
    }
    ev.inc("slice_cases");
    let mut h = Hasher::new();
    h.u(ts.structural_hash());
    for v in &refp {
        h.f(*v);
    }
    ev.nontrivial(h.fin());
}

#[allow(dead_code)]
fn _a(_: &Aff) {}
