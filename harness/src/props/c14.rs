//! C14 — polytope constructors and transformations are set-exact.
//!
//! Deciding oracle: exact (rational) membership of the pre-image in the operand(s) vs exact
//! membership in the library's result rows, and vs the library's own `contains` of the result.

use crate::ev::{Ev, Hasher};
use crate::gen::{self, arr1, arr2, Aff, Regime};
use crate::lpx::{self, Sys};
use crate::q::{dot, qv, Q};
use crate::rng::Rng;
use crate::util::lib;
use crate::Ctx;
use affinitree::linalg::affine::Polytope;
use serde_json::json;

fn member(p: &Aff, x: &[Q]) -> bool {
    p.mat.iter().zip(p.bias.iter()).all(|(r, b)| dot(&qv(r), x).le(&Q::from_f64(*b)))
}

/// smallest exact slack (can be negative); None if there are no rows
fn min_slack(p: &Aff, x: &[Q]) -> Option<Q> {
    p.mat
        .iter()
        .zip(p.bias.iter())
        .map(|(r, b)| Q::from_f64(*b).sub(&dot(&qv(r), x)))
        .min()
}

fn poly(rng: &mut Rng, n: usize, rg: Regime) -> Aff {
    let m = 1 + rng.below(5);
    let mut p = gen::pred(rng, m, n, rg);
    // make it likely non-empty around the origin and sometimes asymmetric
    for b in p.bias.iter_mut() {
        *b = (*b).abs() + if rng.chance(0.5) { 1.0 } else { 0.0 };
        if rng.chance(0.15) {
            *b = -*b;
        }
    }
    if rng.chance(0.15) {
        for v in p.mat[0].iter_mut() {
            *v = 0.0;
        }
    }
    p
}

fn points(rng: &mut Rng, n: usize, ps: &[&Aff]) -> Vec<Vec<f64>> {
    let mut out = gen::lattice(rng, n, 3, 1.0, 40);
    out.extend(gen::lattice(rng, n, 4, 0.5, 30));
    for p in ps {
        if p.indim() != n {
            continue;
        }
        for (r, b) in p.mat.iter().zip(p.bias.iter()) {
            out.extend(gen::on_hyperplane(rng, r, *b, 2));
        }
    }
    out
}

/// unimodular integer matrix with its exact inverse
fn unimodular(rng: &mut Rng, n: usize) -> (Vec<Vec<f64>>, Vec<Vec<f64>>) {
    let mut m = vec![vec![0.0; n]; n];
    let mut inv = vec![vec![0.0; n]; n];
    for i in 0..n {
        m[i][i] = 1.0;
        inv[i][i] = 1.0;
    }
    for _ in 0..(2 + rng.below(4)) {
        if n < 2 {
            break;
        }
        let i = rng.below(n);
        let mut j = rng.below(n);
        if i == j {
            j = (j + 1) % n;
        }
        let c = rng.int(-2, 2) as f64;
        match rng.below(3) {
            0 => {
                // M <- E M with E = I + c e_i e_j^T ; inv <- inv E^-1
                for t in 0..n {
                    m[i][t] += c * m[j][t];
                }
                for t in 0..n {
                    inv[t][j] -= c * inv[t][i];
                }
            }
            1 => {
                m.swap(i, j);
                for t in 0..n {
                    let tmp = inv[t][i];
                    inv[t][i] = inv[t][j];
                    inv[t][j] = tmp;
                }
            }
            _ => {
                for t in 0..n {
                    m[i][t] = -m[i][t];
                }
                for t in 0..n {
                    inv[t][i] = -inv[t][i];
                }
            }
        }
    }
    (m, inv)
}

fn matvec(m: &[Vec<f64>], x: &[Q]) -> Vec<Q> {
    m.iter().map(|r| dot(&qv(r), x)).collect()
}

fn signed_perm(rng: &mut Rng, n: usize) -> Vec<Vec<f64>> {
    let mut idx: Vec<usize> = (0..n).collect();
    rng.shuffle(&mut idx);
    let mut m = vec![vec![0.0; n]; n];
    for i in 0..n {
        m[i][idx[i]] = if rng.chance(0.5) { 1.0 } else { -1.0 };
    }
    m
}

pub fn run_case(ctx: &Ctx, case: u64, ev: &mut Ev) {
    let mut rng = Rng::derive(ctx.seed, "C14", case);
    rng.big = crate::draw_big(ctx, &mut rng);
    let rg = if rng.chance(0.6) { Regime::Int } else { Regime::Dyadic };
    let n = 1 + rng.below(if rng.big { 7 } else { 5 });
    let p = poly(&mut rng, n, rg);
    let p2 = poly(&mut rng, n, rg);
    let desc = json!({"n": n, "P": p.json(), "P2": p2.json()});
    ev.evaluations += 1;
    let mut h = Hasher::new();
    for a in [&p, &p2] {
        for r in &a.mat {
            for v in r {
                h.f(*v);
            }
        }
        for v in &a.bias {
            h.f(*v);
        }
    }
    let mut nontrivial = false;

    macro_rules! fail {
        ($sig:expr, $msg:expr) => {{
            ev.violation(case, $sig, "", json!({"case": desc, "problem": $msg}));
            return;
        }};
    }
    macro_rules! call {
        ($what:expr, $e:expr) => {
            match lib(case, $what, || $e) {
                Ok(v) => v,
                Err(pm) => fail!(&format!("c14:{}:panic", $what), pm),
            }
        };
    }
    // compares definition(x) with exact membership in result rows and with the library's contains
    macro_rules! semantic {
        ($name:expr, $res:expr, $pts:expr, $def:expr) => {{
            let resa = Aff::from_poly(&$res);
            for x in $pts.iter() {
                let xq = qv(x);
                let expect: bool = $def(&xq);
                let got = member(&resa, &xq);
                if got != expect {
                    fail!(&format!("c14:{}", $name), format!("{}: x={:?}: definition says {} but result rows {} say {}", $name, x, expect, resa.json(), got));
                }
                // library contains(): tolerance 1e-8 on raw slack; only compare when the exact slack is not inside (-1e-6, 0)
                let ms = min_slack(&resa, &xq);
                let ambiguous = ms.as_ref().map_or(false, |s| s.is_neg() && s.gt(&Q::frac(-1, 1_000_000)));
                if !ambiguous {
                    let c = call!("contains", $res.contains(&arr1(x)));
                    if c != expect {
                        fail!(&format!("c14:{}:contains", $name), format!("{}: x={:?}: definition says {} but contains() = {}", $name, x, expect, c));
                    }
                }
                ev.inc("membership_checks");
            }
        }};
    }

    let lp = p.to_poly();
    let lp2 = p2.to_poly();
    let pts = points(&mut rng, n, &[&p, &p2]);

    // intersection / intersection_n
    let inter = call!("intersection", lp.intersection(&lp2));
    semantic!("intersection", inter, pts, |x: &Vec<Q>| member(&p, x) && member(&p2, x));
    let p3 = poly(&mut rng, n, rg);
    let list = match rng.below(4) {
        0 => vec![],
        1 => vec![lp.clone()],
        2 => vec![lp.clone(), lp2.clone()],
        _ => vec![lp.clone(), lp2.clone(), p3.to_poly()],
    };
    let nlist = list.len();
    let intern = call!("intersection_n", Polytope::intersection_n(n, &list));
    semantic!("intersection_n", intern, pts, |x: &Vec<Q>| {
        (nlist < 1 || member(&p, x)) && (nlist < 2 || member(&p2, x)) && (nlist < 3 || member(&p3, x))
    });

    // translate
    let d: Vec<f64> = (0..n).map(|_| gen::coef(&mut rng, rg)).collect();
    if d.iter().any(|v| *v != 0.0) && p.bias.iter().any(|b| *b != 0.0) {
        nontrivial = true;
    }
    let tr = call!("translate", lp.translate(&arr1(&d)));
    let dq = qv(&d);
    semantic!("translate", tr, pts, |x: &Vec<Q>| {
        let y: Vec<Q> = x.iter().zip(dq.iter()).map(|(a, b)| a.sub(b)).collect();
        member(&p, &y)
    });

    // apply_pre with an arbitrary affine map R^k -> R^n
    let k = 1 + rng.below(4);
    let f = gen::aff(&mut rng, n, k, rg);
    let pre = call!("apply_pre", lp.apply_pre(&f.to_lib()));
    let ptsk = {
        let mut v = gen::lattice(&mut rng, k, 3, 1.0, 40);
        v.extend(gen::lattice(&mut rng, k, 4, 0.5, 20));
        let prea = Aff::from_poly(&pre);
        for (r, b) in prea.mat.iter().zip(prea.bias.iter()) {
            v.extend(gen::on_hyperplane(&mut rng, r, *b, 1));
        }
        v
    };
    semantic!("apply_pre", pre, ptsk, |x: &Vec<Q>| member(&p, &f.apply_q(x)));

    // apply_post with a unimodular matrix and its exact inverse
    let (mm, minv) = unimodular(&mut rng, n);
    let beta: Vec<f64> = (0..n).map(|_| rng.int(-3, 3) as f64).collect();
    let post = call!("apply_post", lp.apply_post(&arr2(&minv, n), &arr1(&beta)));
    let bq = qv(&beta);
    let mut ptsy = pts.clone();
    for x in pts.iter().take(30) {
        // images of lattice points under y = M x + beta
        let y: Vec<f64> = matvec(&mm, &qv(x)).iter().zip(bq.iter()).map(|(a, b)| a.add(b).to_f64()).collect();
        ptsy.push(y);
    }
    semantic!("apply_post", post, ptsy, |y: &Vec<Q>| {
        let z: Vec<Q> = y.iter().zip(bq.iter()).map(|(a, b)| a.sub(b)).collect();
        member(&p, &matvec(&minv, &z))
    });

    // rotate with signed permutation (exact)
    let rmat = signed_perm(&mut rng, n);
    let rot = call!("rotate", lp.rotate(&arr2(&rmat, n)));
    let rt: Vec<Vec<f64>> = (0..n).map(|i| (0..n).map(|j| rmat[j][i]).collect()).collect();
    semantic!("rotate", rot, pts, |y: &Vec<Q>| member(&p, &matvec(&rt, y)));
    // rotate by a 3-4-5 rotation in a random coordinate plane (float): only points with margin
    if n >= 2 {
        let i = rng.below(n);
        let mut j = rng.below(n);
        if i == j {
            j = (j + 1) % n;
        }
        let mut r = vec![vec![0.0; n]; n];
        for t in 0..n {
            r[t][t] = 1.0;
        }
        r[i][i] = 0.6;
        r[i][j] = -0.8;
        r[j][i] = 0.8;
        r[j][j] = 0.6;
        let rot = call!("rotate", lp.rotate(&arr2(&r, n)));
        let rota = Aff::from_poly(&rot);
        let rt: Vec<Vec<f64>> = (0..n).map(|a| (0..n).map(|b| r[b][a]).collect()).collect();
        for x in pts.iter() {
            // x in P  =>  R x in result (and conversely) unless x is within 1e-6 of the boundary
            let xq = qv(x);
            let ms = match min_slack(&p, &xq) {
                Some(s) => s.to_f64(),
                None => 1.0,
            };
            if ms.abs() < 1e-6 {
                ev.skip("rotation point within 1e-6 of the boundary (inexact 3-4-5 matrix)");
                continue;
            }
            let y: Vec<f64> = matvec(&r, &xq).iter().map(|q| q.to_f64()).collect();
            let got = member(&rota, &qv(&y));
            if got != (ms > 0.0) {
                fail!("c14:rotate:345", format!("x={:?} slack {} but R x in result = {}", x, ms, got));
            }
            let _ = &rt;
        }
    }

    // distance(): signed, normalised
    {
        let x = pts[rng.below(pts.len())].clone();
        let dist = call!("distance", lp.distance(&arr1(&x)));
        for i in 0..p.mat.len() {
            let norm: f64 = p.mat[i].iter().map(|v| v * v).sum::<f64>().sqrt();
            let raw = Q::from_f64(p.bias[i]).sub(&dot(&qv(&p.mat[i]), &qv(&x))).to_f64();
            if norm == 0.0 {
                if p.bias[i] > 0.0 && !(dist[i] == f64::INFINITY) {
                    fail!("c14:distance:allspace", format!("row {} includes all points but distance = {}", i, dist[i]));
                }
                // a row 0.x <= b with b < 0 excludes every point: the signed distance must be negative
                if p.bias[i] < 0.0 && !(dist[i] < 0.0) {
                    fail!("c14:distance:nospace", format!("row {} (0.x <= {}) excludes all points but distance = {}", i, p.bias[i], dist[i]));
                }
                continue;
            }
            let e = raw / norm;
            if !((dist[i] - e).abs() <= 1e-12 * (1.0 + e.abs())) || (e != 0.0 && dist[i].signum() != e.signum()) {
                fail!("c14:distance", format!("distance({:?})[{}] = {} expected {}", x, i, dist[i], e));
            }
        }
        // the un-normalised variant that contains() is built on (distances_raw, the multi-point variant, is
        // used nowhere and named by no property: it unwraps a failed broadcast unless the number of points
        // equals the number of rows - noted in DESIGN.md §6, not asserted here)
        let raw1 = call!("distance_raw", lp.distance_raw(&arr1(&x)));
        for i in 0..p.mat.len() {
            let e1 = Q::from_f64(p.bias[i]).sub(&dot(&qv(&p.mat[i]), &qv(&x))).to_f64();
            let sc: f64 = 1.0 + p.bias[i].abs() + p.mat[i].iter().map(|v| v.abs()).sum::<f64>() * 10.0;
            if !((raw1[i] - e1).abs() <= 1e-12 * sc) {
                fail!("c14:distance_raw", format!("row {}: distance_raw {} expected {}", i, raw1[i], e1));
            }
        }
        ev.inc("distance_checks");
    }

    // ---- constructors
    let dd = 1 + rng.below(5);
    let cpts = {
        let mut v = gen::lattice(&mut rng, dd, 3, 1.0, 40);
        v.extend(gen::lattice(&mut rng, dd, 4, 0.5, 40));
        v.extend(gen::lattice(&mut rng, dd, 4, 0.25, 30));
        v
    };
    {
        let r = *rng.pick(&[0.5, 1.0, 1.5, 2.0, 0.25, 3.0]);
        let hc = call!("hypercube", Polytope::hypercube(dd, r));
        let rq = Q::from_f64(r);
        semantic!("hypercube", hc, cpts, |x: &Vec<Q>| x.iter().all(|v| v.abs().le(&rq)));
    }
    {
        let iv: Vec<(f64, f64)> = (0..dd)
            .map(|_| {
                let a = rng.int(-4, 4) as f64 * 0.5;
                let b = a + rng.int(0, 4) as f64 * 0.5;
                (a, b)
            })
            .collect();
        if iv.iter().any(|(a, b)| *a != -*b) {
            nontrivial = true;
        }
        let hr = call!("hyperrectangle", Polytope::hyperrectangle(&iv));
        semantic!("hyperrectangle", hr, cpts, |x: &Vec<Q>| {
            x.iter().zip(iv.iter()).all(|(v, (a, b))| v.ge(&Q::from_f64(*a)) && v.le(&Q::from_f64(*b)))
        });
    }
    {
        let axis = rng.below(dd);
        let lo = match rng.below(3) {
            0 => f64::NEG_INFINITY,
            _ => rng.int(-4, 2) as f64 * 0.5,
        };
        let hi = match rng.below(3) {
            0 => f64::INFINITY,
            _ => (if lo.is_finite() { lo } else { -1.0 }) + rng.int(0, 5) as f64 * 0.5,
        };
        let ab = call!("axis_bounds", Polytope::axis_bounds(dd, axis, lo, hi));
        semantic!("axis_bounds", ab, cpts, |x: &Vec<Q>| {
            (lo.is_infinite() || x[axis].ge(&Q::from_f64(lo))) && (hi.is_infinite() || x[axis].le(&Q::from_f64(hi)))
        });
        if lo.is_infinite() || hi.is_infinite() {
            ev.inc("axis_bounds_with_infinite_bound");
            // distance(): +inf for the all-space row
            let dist = call!("distance", ab.distance(&arr1(&cpts[0])));
            let aba = Aff::from_poly(&ab);
            for i in 0..aba.mat.len() {
                if aba.mat[i].iter().all(|v| *v == 0.0) && dist[i] != f64::INFINITY {
                    fail!("c14:distance:allspace", format!("axis_bounds all-space row {} has distance {}", i, dist[i]));
                }
            }
        }
    }
    {
        let u = call!("unbounded", Polytope::unbounded(dd));
        semantic!("unbounded", u, cpts, |_x: &Vec<Q>| true);
        let e = call!("empty", Polytope::empty(dd));
        semantic!("empty", e, cpts, |_x: &Vec<Q>| false);
        // distance() signed accordingly: no point is in the empty set, so some entry must be negative
        let de = call!("distance", e.distance(&arr1(&cpts[0])));
        if !de.iter().any(|v| *v < 0.0) {
            fail!("c14:distance:empty", format!("empty({}).distance({:?}) = {:?} reports no violated constraint", dd, cpts[0], de.to_vec()));
        }
        ev.inc("distance_checks_on_empty");
    }
    if dd <= 4 {
        let cp = call!("cross_polytope", Polytope::cross_polytope(dd));
        semantic!("cross_polytope", cp, cpts, |x: &Vec<Q>| x.iter().fold(Q::zero(), |a, b| a.add(&b.abs())).le(&Q::one()));
    }
    {
        // from_normal: n_i . (x - p_i) >= 0
        let m = 1 + rng.below(4);
        let normals = gen::pred(&mut rng, m, dd, rg);
        let ptsn: Vec<Vec<f64>> = (0..m).map(|_| (0..dd).map(|_| rng.int(-3, 3) as f64 * 0.5).collect()).collect();
        let fnm = call!("from_normal", Polytope::from_normal(arr2(&normals.mat, dd), arr2(&ptsn, dd)));
        semantic!("from_normal", fnm, cpts, |x: &Vec<Q>| {
            (0..m).all(|i| {
                let diff: Vec<Q> = x.iter().zip(ptsn[i].iter()).map(|(a, b)| a.sub(&Q::from_f64(*b))).collect();
                !dot(&qv(&normals.mat[i]), &diff).is_neg()
            })
        });
    }
    if dd <= 4 {
        // simplex: regular, edge sqrt(2), origin strictly inside
        let sp = call!("simplex", Polytope::simplex(dd));
        let spa = Aff::from_poly(&sp);
        if spa.mat.len() != dd + 1 || spa.indim() != dd {
            fail!("c14:simplex:shape", format!("simplex({}) has {} rows", dd, spa.mat.len()));
        }
        let sys = spa.sys();
        // vertices: drop one facet, solve the others as equalities
        let mut verts: Vec<Vec<Q>> = Vec::new();
        for skip in 0..=dd {
            let rows: Vec<usize> = (0..=dd).filter(|i| *i != skip).collect();
            let a: Vec<Vec<Q>> = rows.iter().map(|i| sys.a[*i].clone()).collect();
            let b: Vec<Q> = rows.iter().map(|i| sys.b[*i].clone()).collect();
            match solve(&a, &b) {
                Some(v) => verts.push(v),
                None => fail!("c14:simplex:degenerate", format!("facets other than {} are linearly dependent", skip)),
            }
        }
        for v in &verts {
            if !sys.contains(v) {
                fail!("c14:simplex:vertex", "a facet intersection point is outside the simplex (not a simplex)".to_string());
            }
        }
        for i in 0..verts.len() {
            for j in 0..i {
                let d2: f64 = verts[i].iter().zip(verts[j].iter()).map(|(a, b)| a.sub(b).to_f64().powi(2)).sum();
                if (d2.sqrt() - 2f64.sqrt()).abs() > 1e-9 {
                    fail!("c14:simplex:edge", format!("simplex({}): edge {}-{} has length {}", dd, i, j, d2.sqrt()));
                }
            }
        }
        if !sys.slacks(&vec![Q::zero(); dd]).iter().all(|s| s.is_pos()) {
            fail!("c14:simplex:origin", "origin is not strictly inside".to_string());
        }
        // boundedness via the exact LP oracle
        for j in 0..dd {
            for s in [1i64, -1] {
                let mut c = vec![Q::zero(); dd];
                c[j] = Q::int(s);
                match lpx::minimize(&sys, &c) {
                    Ok(lpx::Opt::Optimal { .. }) => {}
                    Ok(_) => fail!("c14:simplex:unbounded", format!("simplex({}) is unbounded or empty", dd)),
                    Err(_) => ev.skip("oracle-error"),
                }
            }
        }
        ev.inc("simplex_checks");
    }

    if nontrivial {
        ev.nontrivial(h.fin());
    }
    if ev.want_sample() {
        ev.sample(desc);
    }
}

fn solve(a: &[Vec<Q>], b: &[Q]) -> Option<Vec<Q>> {
    let n = b.len();
    let mut m: Vec<Vec<Q>> = a
        .iter()
        .zip(b.iter())
        .map(|(r, v)| {
            let mut r = r.clone();
            r.push(v.clone());
            r
        })
        .collect();
    for c in 0..n {
        let p = (c..n).find(|&i| !m[i][c].is_zero())?;
        m.swap(c, p);
        let inv = m[c][c].recip();
        for j in c..=n {
            m[c][j] = m[c][j].mul(&inv);
        }
        for i in 0..n {
            if i != c && !m[i][c].is_zero() {
                let f = m[i][c].clone();
                for j in c..=n {
                    let d = f.mul(&m[c][j]);
                    m[i][j] = m[i][j].sub(&d);
                }
            }
        }
    }
    Some((0..n).map(|i| m[i][n].clone()).collect())
}

#[allow(dead_code)]
fn _t(_: &Sys) {}
