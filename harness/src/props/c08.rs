//! C08 — reduce preserves the function and only merges identical siblings.
//!
//! Oracle: exact evaluator before/after on all probe inputs (no tolerance, reduce involves no LP),
//! an independent reference reduce whose result must be isomorphic, idempotence, leftover scan.

use crate::ev::{Ev, Hasher};
use crate::gen::{self, Aff, Regime, Spec, TreeCfg};
use crate::q::qv;
use crate::rng::Rng;
use crate::snap::{snap, Ev as TEv, Snap};
use crate::util::lib;
use crate::Ctx;
use serde_json::json;

#[derive(Clone, Debug, PartialEq)]
enum R {
    T(Vec<Vec<f64>>, Vec<f64>),
    D(Vec<Vec<f64>>, Vec<f64>, Vec<Option<Box<R>>>),
}

fn to_r(s: &Snap, i: usize) -> R {
    let n = s.node(i);
    if n.has_children() {
        R::D(n.mat.clone(), n.bias.clone(), n.children.iter().map(|c| c.map(|c| Box::new(to_r(s, c)))).collect())
    } else {
        R::T(n.mat.clone(), n.bias.clone())
    }
}

fn feq(a: &[Vec<f64>], b: &[Vec<f64>]) -> bool {
    // the library compares with f64 == (so 0.0 == -0.0, NaN != NaN)
    a.len() == b.len() && a.iter().zip(b.iter()).all(|(x, y)| x.len() == y.len() && x.iter().zip(y.iter()).all(|(p, q)| p == q))
}

/// reference reduce: bottom-up, a non-root decision with two equal terminal children becomes that terminal
fn reduce_ref(r: &R, is_root: bool, merges: &mut usize, max_cascade: &mut usize) -> (R, usize) {
    match r {
        R::T(..) => (r.clone(), 0),
        R::D(m, b, kids) => {
            let mut depth_below = 0;
            let nk: Vec<Option<Box<R>>> = kids
                .iter()
                .map(|k| {
                    k.as_ref().map(|k| {
                        let (rr, d) = reduce_ref(k, false, merges, max_cascade);
                        if d > depth_below {
                            depth_below = d;
                        }
                        Box::new(rr)
                    })
                })
                .collect();
            if !is_root && nk.len() == 2 {
                if let (Some(l), Some(rt)) = (&nk[0], &nk[1]) {
                    if let (R::T(lm, lb), R::T(rm, rb)) = (l.as_ref(), rt.as_ref()) {
                        if feq(lm, rm) && feq(&[lb.clone()], &[rb.clone()]) {
                            *merges += 1;
                            let casc = depth_below + 1;
                            if casc > *max_cascade {
                                *max_cascade = casc;
                            }
                            return (R::T(lm.clone(), lb.clone()), casc);
                        }
                    }
                }
            }
            (R::D(m.clone(), b.clone(), nk), 0)
        }
    }
}

fn r_eq(a: &R, b: &R) -> bool {
    match (a, b) {
        (R::T(m1, b1), R::T(m2, b2)) => feq(m1, m2) && feq(&[b1.clone()], &[b2.clone()]),
        (R::D(m1, b1, k1), R::D(m2, b2, k2)) => {
            feq(m1, m2)
                && feq(&[b1.clone()], &[b2.clone()])
                && k1.len() == k2.len()
                && k1.iter().zip(k2.iter()).all(|(x, y)| match (x, y) {
                    (None, None) => true,
                    (Some(x), Some(y)) => r_eq(x, y),
                    _ => false,
                })
        }
        _ => false,
    }
}

fn next_up(v: f64) -> f64 {
    if v == 0.0 {
        return f64::MIN_POSITIVE; // stays a normal float
    }
    let b = v.to_bits();
    f64::from_bits(if v > 0.0 { b + 1 } else { b - 1 })
}

/// plant equal-terminal siblings (cascades) and near misses into a spec
fn plant(s: &mut Spec, rng: &mut Rng, depth: usize, near: &mut usize, template: &Aff) {
    if let Spec::D(_, kids) = s {
        let r = rng.unit();
        if depth > 0 && r < 0.35 {
            // make the whole subtree collapse: all terminals below equal to the template
            fill(s, template);
            return;
        }
        if r < 0.5 && kids.len() == 2 {
            // near miss: two terminals differing in exactly one number
            let mut a = template.clone();
            let b = template.clone();
            match rng.below(4) {
                0 => {
                    let i = rng.below(a.bias.len());
                    a.bias[i] += 1.0;
                }
                1 => {
                    let i = rng.below(a.mat.len());
                    let j = rng.below(a.mat[i].len());
                    a.mat[i][j] = next_up(a.mat[i][j]);
                }
                2 => {
                    let i = rng.below(a.bias.len());
                    a.bias[i] = next_up(a.bias[i]);
                }
                _ => {
                    // 0.0 vs -0.0: equal as numbers, the library merges them and the function is unchanged
                    let i = rng.below(a.mat.len());
                    let j = rng.below(a.mat[i].len());
                    if a.mat[i][j] == 0.0 {
                        a.mat[i][j] = -0.0;
                    } else {
                        a.mat[i][j] += 0.5;
                    }
                }
            }
            *near += 1;
            kids[0] = Some(Box::new(Spec::T(a)));
            kids[1] = Some(Box::new(Spec::T(b)));
            return;
        }
        for k in kids.iter_mut().flatten() {
            plant(k, rng, depth + 1, near, template);
        }
    }
}

fn fill(s: &mut Spec, template: &Aff) {
    match s {
        Spec::T(a) => *a = template.clone(),
        Spec::D(_, kids) => {
            for k in kids.iter_mut().flatten() {
                fill(k, template);
            }
        }
    }
}

pub fn run_case(ctx: &Ctx, case: u64, ev: &mut Ev) {
    let mut rng = Rng::derive(ctx.seed, "C08", case);
    rng.big = crate::draw_big(ctx, &mut rng);
    let rg = match rng.below(10) {
        0..=4 => Regime::Int,
        5..=7 => Regime::Dyadic,
        _ => Regime::Short,
    };
    let n = 1 + rng.below(3);
    let m = 1 + rng.below(3);
    let mut cfg = TreeCfg::basic(2, n, m, rg);
    cfg.max_depth = 1 + rng.below(if rng.big { 8 } else { 5 });
    cfg.p_stop = 0.15;
    cfg.p_missing = if rng.chance(0.3) { 0.2 } else { 0.0 };
    cfg.p_equal_sibs = 0.2;
    cfg.allow_leaf_root = rng.chance(0.1);
    let mut sp = gen::spec(&mut rng, &cfg);
    let template = gen::aff(&mut rng, m, n, rg);
    let mut near = 0;
    if rng.chance(0.8) {
        plant(&mut sp, &mut rng, 0, &mut near, &template);
    }
    let scr = rng.chance(0.5);
    let mut t = gen::build::<2>(&sp, &mut rng, scr);
    // a third of the trees carry cached feasibility states (siblings with equal functions then hold
    // different witnesses) and index holes from an earlier elimination
    if rng.chance(0.3) {
        match lib(case, "history: infeasible_elimination", || {
            let mut u = t.clone();
            u.infeasible_elimination();
            u
        }) {
            Ok(u) => {
                t = u;
                ev.inc("trees_with_elimination_history");
            }
            Err(_) => {
                ev.skip("elimination panicked while preparing the tree (C04's subject)");
                return;
            }
        }
    }
    let before = snap(&t);
    ev.evaluations += 1;
    let desc = json!({"before": before.to_json()});
    macro_rules! fail {
        ($sig:expr, $msg:expr) => {{
            ev.violation(case, $sig, "", json!({"case": desc, "problem": $msg}));
            return;
        }};
    }
    let mut r1 = t.clone();
    if let Err(p) = lib(case, "reduce", || r1.reduce()) {
        fail!("c08:reduce:panic", p);
    }
    let after = snap(&r1);
    if let Err(e) = after.wf_tree() {
        fail!("c08:malformed", e);
    }
    if after.nodes.len() > before.nodes.len() {
        fail!("c08:grew", format!("{} nodes before, {} after", before.nodes.len(), after.nodes.len()));
    }
    // surviving nodes keep index and function
    for (i, an) in &after.nodes {
        match before.nodes.get(i) {
            Some(bn) if bn.same_aff(an) => {}
            Some(_) => fail!("c08:function-changed", format!("node {} holds a different function after reduce", i)),
            None => fail!("c08:new-node", format!("node {} did not exist before reduce", i)),
        }
    }
    // reference reduce
    let mut merges = 0;
    let mut casc = 0;
    let (expect, _) = reduce_ref(&to_r(&before, before.root), true, &mut merges, &mut casc);
    let got = to_r(&after, after.root);
    if !r_eq(&expect, &got) {
        let kind = if count(&got) < count(&expect) { "over-merged" } else { "under-merged" };
        fail!(&format!("c08:reference:{}", kind), format!("result has {} nodes, the reference reduce gives {} ({} merges expected)", count(&got), count(&expect), merges));
    }
    // leftover scan: no non-root decision with two equal terminal children
    for (i, nd) in &after.nodes {
        if *i == after.root || !nd.has_children() {
            continue;
        }
        if let (Some(l), Some(r)) = (nd.children[0], nd.children[1]) {
            let (ln, rn) = (after.node(l), after.node(r));
            if !ln.has_children() && !rn.has_children() && feq(&ln.mat, &rn.mat) && feq(&[ln.bias.clone()], &[rn.bias.clone()]) {
                fail!("c08:leftover", format!("decision {} still has two identical terminal children", i));
            }
        }
    }
    // exact functional equality on all probes
    let pts = gen::probes(&mut rng, &[&before], n, 60);
    for x in &pts {
        let xq = qv(x);
        let a = before.eval(&xq);
        let b = after.eval(&xq);
        let same = match (&a, &b) {
            (TEv::Val(_, va), TEv::Val(_, vb)) => va == vb,
            (TEv::Undef(..), TEv::Undef(..)) => true,
            _ => false,
        };
        if !same {
            fail!("c08:function", format!("x={:?}: before {} after {}", x, a.brief(), b.brief()));
        }
        ev.inc("inputs_checked");
    }
    // idempotence
    let mut r2 = r1.clone();
    if let Err(p) = lib(case, "reduce (second)", || r2.reduce()) {
        fail!("c08:reduce2:panic", p);
    }
    if snap(&r2) != after {
        fail!("c08:not-idempotent", "a second reduce changed the tree".to_string());
    }
    // the same object is edited and reduced again: an edit that keeps len() but makes siblings equal
    // (apply_func with a constant map turns every terminal into the same constant) must be seen by reduce
    if rng.chance(0.3) {
        let od = after.nodes.values().find(|nd| !nd.has_children()).map_or(1, |nd| nd.mat.len());
        let mut konst = Aff { mat: vec![vec![0.0; od]; od], bias: (0..od).map(|i| (i + 1) as f64).collect() };
        if rng.chance(0.3) {
            // ... or only scales: nothing new becomes equal
            konst = Aff::identity(od);
            for i in 0..od {
                konst.mat[i][i] = 2.0;
            }
        }
        let mut r3 = r1.clone();
        let edited = lib(case, "apply_func after reduce", || r3.apply_func(&konst.to_lib()));
        if edited.is_ok() {
            let mid = snap(&r3);
            if lib(case, "reduce (after an edit of the reduced tree)", || r3.reduce()).is_err() {
                fail!("c08:reduce-after-edit:panic", "reduce panicked on the edited tree".to_string());
            }
            let fin = snap(&r3);
            let mut mg = 0;
            let mut cs = 0;
            let (expect2, _) = reduce_ref(&to_r(&mid, mid.root), true, &mut mg, &mut cs);
            if !r_eq(&expect2, &to_r(&fin, fin.root)) {
                fail!(
                    "c08:reduce-after-edit",
                    format!("after reduce, apply_func({}) and a second reduce the tree has {} nodes, the reference reduce of the edited tree gives {} ({} merges expected)", konst.json(), fin.nodes.len(), count(&expect2), mg)
                );
            }
            ev.inc("reduce_after_edit_checked");
            ev.count("merges_after_edit", mg as u64);
        }
    }
    ev.count("merges", merges as u64);
    if near > 0 {
        ev.inc("cases_with_near_miss_siblings");
    }
    if casc >= 2 {
        ev.inc("cases_with_cascading_merges");
    }
    if merges > 0 {
        let mut h = Hasher::new();
        h.u(before.structural_hash());
        ev.nontrivial(h.fin());
    }
    if ev.want_sample() && merges > 0 {
        ev.sample(json!({"nodes_before": before.nodes.len(), "nodes_after": after.nodes.len(), "merges": merges, "max_cascade_levels": casc, "near_miss_pairs": near, "before": before.to_json()}));
    }
}

fn count(r: &R) -> usize {
    match r {
        R::T(..) => 1,
        R::D(_, _, k) => 1 + k.iter().flatten().map(|c| count(c)).sum::<usize>(),
    }
}
