//! C01 — distillation is faithful: the tree computes exactly the network.
//!
//! Oracle: independent exact-rational forward pass of the textbook network (refnet) and exact
//! precondition membership; the distilled tree is evaluated by the independent exact walk and by
//! the library's evaluate().

use super::common::*;
use super::refnet::{self, L};
use crate::ev::{Ev, Hasher};
use crate::gen::{self, Aff, Regime};
use crate::lpx::{self, Band};
use crate::q::{qv, Q};
use crate::rng::Rng;
use crate::snap::{snap, Ev as TEv};
use crate::util::lib;
use crate::Ctx;
use affinitree::distill::builder::afftree_from_layers;
use affinitree::pwl::afftree::AffTree;
use serde_json::json;

pub fn gen_net(rng: &mut Rng, in_dim: usize, rg: Regime, allow_head: bool) -> (Vec<L>, usize, usize) {
    let mut layers = Vec::new();
    let mut dim = in_dim;
    let mut neurons = 0usize;
    let nl = 1 + rng.below(if rng.big { 4 } else { 3 });
    let cap = if rng.big { 9 } else { 7 };
    for li in 0..nl {
        let w = 1 + rng.below(if rng.big { 4 } else { 3 });
        layers.push(L::Linear(gen::aff(rng, w, dim, rg)));
        dim = w;
        if li + 1 == nl && rng.chance(0.3) {
            break; // plain linear output layer
        }
        for i in 0..w {
            if neurons >= cap {
                break;
            }
            let l = match rng.below(10) {
                0 => continue, // no activation on this neuron
                1..=4 => L::Relu(i),
                5..=6 => L::Leaky(i, *rng.pick(&[0.0, 0.5, 0.25, 2.0, -1.0])),
                7..=8 => L::HardTanh(i),
                _ => L::HardSigmoid(i),
            };
            layers.push(l.clone());
            neurons += 1;
            // the same activation applied again to the same neuron (not every activation is idempotent)
            if neurons < cap && rng.chance(0.12) {
                layers.push(l);
                neurons += 1;
            }
        }
    }
    if allow_head && dim >= 2 && rng.chance(0.35) {
        if rng.chance(0.5) {
            layers.push(L::Argmax);
        } else {
            layers.push(L::ClassChar(rng.below(dim)));
        }
        dim = 1;
        // a dimension-consistent tail after the head (input width 1)
        if rng.chance(0.3) {
            let w = 1 + rng.below(2);
            layers.push(L::Linear(gen::aff(rng, w, 1, rg)));
            dim = w;
            if neurons < 7 && rng.chance(0.6) {
                layers.push(L::Relu(rng.below(w)));
                neurons += 1;
            }
        }
    }
    (layers, dim, neurons)
}

/// The networks shipped with the crate (float weights): distilled and compared with the reference
/// forward pass on random inputs away from breakpoints.
fn run_shipped(case: u64, rng: &mut Rng, ev: &mut Ev) {
    let file = *rng.pick(&["/repo/res/nn/ecoli.npz", "/repo/res/nn/iris.npz"]);
    let layers = match lib(case, "read_layers(shipped)", || affinitree::distill::builder::read_layers(&file).map_err(|e| format!("{}", e))) {
        Ok(Ok(l)) => l,
        _ => {
            ev.skip("shipped network file not readable");
            return;
        }
    };
    let n = match layers.first() {
        Some(affinitree::distill::builder::Layer::Linear(a)) => a.indim(),
        _ => return,
    };
    ev.evaluations += 1;
    let reference: Vec<L> = layers
        .iter()
        .map(|l| match l {
            affinitree::distill::builder::Layer::Linear(a) => L::Linear(Aff::from_lib(a)),
            affinitree::distill::builder::Layer::ReLU(i) => L::Relu(*i),
            affinitree::distill::builder::Layer::LeakyReLU(i, a) => L::Leaky(*i, *a),
            affinitree::distill::builder::Layer::HardTanh(i) => L::HardTanh(*i),
            affinitree::distill::builder::Layer::HardSigmoid(i) => L::HardSigmoid(*i),
            affinitree::distill::builder::Layer::Argmax => L::Argmax,
            affinitree::distill::builder::Layer::ClassChar(c) => L::ClassChar(*c),
        })
        .collect();
    let tree = match lib(case, "afftree_from_layers(shipped)", || afftree_from_layers(n, &layers, None)) {
        Ok(t) => t,
        Err(p) => {
            ev.violation(case, "c01:shipped:distill:panic", "", json!({"file": file, "panic": p}));
            return;
        }
    };
    let ts = snap(&tree);
    for _ in 0..200 {
        let x: Vec<f64> = (0..n).map(|_| rng.gauss() * 2.0).collect();
        let xq = qv(&x);
        let margin = refnet::min_margin(&reference, &xq);
        if margin < 1e-6 || !gen::route_rounding_safe(&ts, &x) {
            ev.skip("input within rounding distance of a breakpoint (float regime)");
            continue;
        }
        let exp = refnet::eval(&reference, &xq);
        match ts.eval(&xq) {
            TEv::Val(_, v) => {
                let ok = v.len() == exp.len() && v.iter().zip(exp.iter()).all(|(a, b)| (a.to_f64() - b.to_f64()).abs() <= 1e-8 * (1.0 + b.to_f64().abs()));
                if !ok {
                    ev.violation(case, "c01:shipped:value", "", json!({"file": file, "x": x, "tree": v.iter().map(|q| q.to_f64()).collect::<Vec<_>>(), "network": exp.iter().map(|q| q.to_f64()).collect::<Vec<_>>()}));
                    return;
                }
            }
            o => {
                ev.violation(case, "c01:shipped:undefined", "", json!({"file": file, "x": x, "tree": o.brief()}));
                return;
            }
        }
        if let Err(e) = lib_vs_exact(&tree, &ts, &x, case) {
            ev.violation(case, "c01:shipped:evaluate", "", json!({"file": file, "problem": e}));
            return;
        }
        ev.inc("shipped_net_inputs_checked");
    }
    ev.inc("shipped_nets_distilled");
    let mut h = Hasher::new();
    h.s(file);
    h.u(ts.structural_hash());
    ev.nontrivial(h.fin());
}

/// A hidden layer of 65 .. 72 neurons of which only a handful (some with index >= 64) carry an activation:
/// few regions, cheap to distil, but neuron indices beyond one machine word.
fn run_wide(case: u64, rng: &mut Rng, ev: &mut Ev) {
    let n = 1 + rng.below(2);
    let w = 65 + rng.below(8);
    let a1 = gen::aff(rng, w, n, Regime::Int);
    let a2 = gen::aff(rng, 2, w, Regime::Int);
    let mut idx: Vec<usize> = vec![rng.below(4), 64 + rng.below(w - 64)];
    if rng.chance(0.7) {
        idx.push(60 + rng.below(w - 60));
    }
    idx.sort();
    idx.dedup();
    let mut layers = vec![L::Linear(a1)];
    for i in &idx {
        layers.push(match rng.below(3) {
            0 => L::Relu(*i),
            1 => L::HardTanh(*i),
            _ => L::Leaky(*i, 0.5),
        });
    }
    layers.push(L::Linear(a2));
    ev.evaluations += 1;
    let desc = json!({"wide_hidden_layer": w, "in_dim": n, "layers": refnet::layers_json(&layers)});
    let liblayers = refnet::to_lib(&layers);
    let tree = match lib(case, "afftree_from_layers (wide hidden layer)", || afftree_from_layers(n, &liblayers, None)) {
        Ok(t) => t,
        Err(pm) => {
            ev.violation(case, "c01:distill:panic", "", json!({"case": desc, "problem": pm}));
            return;
        }
    };
    let ts = snap(&tree);
    let mut pts = gen::lattice(rng, n, 4, 0.5, 60);
    pts.extend(gen::probes(rng, &[&ts], n, 40));
    for x in &pts {
        let xq = qv(x);
        let exp = refnet::eval(&layers, &xq);
        match ts.eval(&xq) {
            TEv::Val(_, v) if v == exp => {}
            o => {
                ev.violation(case, "c01:value", "", json!({"case": desc, "problem": format!("x={:?}: tree {} but the network gives {:?}", x, o.brief(), exp.iter().map(|q| q.to_f64()).collect::<Vec<_>>())}));
                return;
            }
        }
    }
    ev.inc("wide_hidden_layers_distilled");
    let mut h = Hasher::new();
    h.s(&desc.to_string());
    ev.nontrivial(h.fin());
}

pub fn run_case(ctx: &Ctx, case: u64, ev: &mut Ev) {
    let mut rng = Rng::derive(ctx.seed, "C01", case);
    rng.big = crate::draw_big(ctx, &mut rng);
    if case % 300 == 17 {
        return run_wide(case, &mut rng, ev);
    }
    if case % 2500 == 1249 {
        run_shipped(case, &mut rng, ev);
        return;
    }
    let rg = match rng.below(10) {
        0..=4 => Regime::Int,
        5..=7 => Regime::Dyadic,
        8 => Regime::Short,
        _ => Regime::Full,
    };
    let n = 1 + rng.below(3);
    // precondition
    let pre_kind = *rng.pick(&["none", "none", "box", "polytope", "polytope-affine", "unbounded", "empty", "thin"]);
    let (pre_poly, pre_func): (Option<Aff>, Option<Aff>) = match pre_kind {
        "none" => (None, None),
        "box" => {
            let mut mat = Vec::new();
            let mut bias = Vec::new();
            for j in 0..n {
                let mut r = vec![0.0; n];
                r[j] = 1.0;
                mat.push(r.clone());
                bias.push(rng.int(1, 3) as f64);
                r[j] = -1.0;
                mat.push(r);
                bias.push(rng.int(0, 3) as f64);
            }
            (Some(Aff { mat, bias }), Some(Aff::identity(n)))
        }
        "unbounded" => {
            let m = 1 + rng.below(2);
            let mut p = gen::pred(&mut rng, m, n, Regime::Int);
            for b in p.bias.iter_mut() {
                *b = b.abs() + 1.0;
            }
            (Some(p), Some(Aff::identity(n)))
        }
        "empty" => {
            let r = gen::nonzero_row(&mut rng, n, Regime::Int);
            let p = Aff {
                mat: vec![r.clone(), r.iter().map(|v| -v).collect()],
                bias: vec![-1.0, -1.0],
            };
            (Some(p), Some(Aff::identity(n)))
        }
        "thin" => {
            // lower-dimensional precondition: a hyperplane slice of a box
            let r = gen::nonzero_row(&mut rng, n, Regime::Int);
            let b = rng.int(-1, 1) as f64;
            let mut mat = vec![r.clone(), r.iter().map(|v| -v).collect()];
            let mut bias = vec![b, -b];
            for j in 0..n {
                let mut u = vec![0.0; n];
                u[j] = 1.0;
                mat.push(u.clone());
                bias.push(3.0);
                u[j] = -1.0;
                mat.push(u);
                bias.push(3.0);
            }
            (Some(Aff { mat, bias }), Some(Aff::identity(n)))
        }
        _ => {
            let m = 2 + rng.below(3);
            let mut p = gen::pred(&mut rng, m, n, Regime::Int);
            for b in p.bias.iter_mut() {
                *b = b.abs() + 1.0;
            }
            let f = if pre_kind == "polytope-affine" {
                let k = 1 + rng.below(3);
                gen::aff(&mut rng, k, n, if rg.is_exact() { rg } else { Regime::Int })
            } else {
                Aff::identity(n)
            };
            (Some(p), Some(f))
        }
    };
    let net_in = pre_func.as_ref().map_or(n, |f| f.outdim());
    let (mut layers, _out_dim, neurons) = gen_net(&mut rng, net_in, rg, true);
    // 6 % (exact regimes, network fed directly with the input): the network and its precondition are
    // translated so that every breakpoint lies 3e6 .. 8e6 away from the origin
    let mut pre_poly = pre_poly;
    if rg.is_exact() && pre_func.as_ref().map_or(true, |f| *f == Aff::identity(n)) && rng.chance(0.06) {
        if let Some(L::Linear(a)) = layers.first_mut() {
            let d = gen::far_shift(&mut rng, n);
            a.shift_function(&d);
            if let Some(p) = pre_poly.as_mut() {
                p.shift_predicate(&d);
            }
            ev.inc("networks_translated_far_from_the_origin");
        }
    }
    let exact = rg.is_exact() && !refnet::has_inexact_op(&layers);
    ev.evaluations += 1;
    let desc = json!({"regime": rg.name(), "in_dim": n, "precondition_kind": pre_kind,
        "precondition": pre_poly.as_ref().map(|p| p.json()), "precondition_func": pre_func.as_ref().map(|f| f.json()),
        "layers": refnet::layers_json(&layers)});
    macro_rules! fail {
        ($sig:expr, $msg:expr) => {{
            ev.violation(case, $sig, "", json!({"case": desc, "problem": $msg}));
            return;
        }};
    }
    let pre_tree: Option<AffTree<2>> = match (&pre_poly, &pre_func) {
        (Some(p), Some(f)) => match lib(case, "from_poly (precondition)", || AffTree::<2>::from_poly(p.to_poly(), f.to_lib(), None)) {
            Ok(Ok(t)) => Some(t),
            Ok(Err(e)) => fail!("c01:precondition:err", format!("{}", e)),
            Err(pm) => fail!("c01:precondition:panic", pm),
        },
        _ => None,
    };
    let liblayers = refnet::to_lib(&layers);
    let tree = match lib(case, "afftree_from_layers", || afftree_from_layers(n, &liblayers, pre_tree.clone())) {
        Ok(t) => t,
        Err(pm) => fail!("c01:distill:panic", pm),
    };
    let ts = snap(&tree);
    if let Err(e) = ts.wf_tree() {
        fail!("c01:malformed", e);
    }
    if ts.in_dim != n {
        fail!("c01:in_dim", format!("distilled tree has in_dim {} expected {}", ts.in_dim, n));
    }
    // ---- probe inputs: tree cells, boundaries, lattice, network activation cells
    let mut pts = gen::probes(&mut rng, &[&ts], n, 60);
    let pre_sys = pre_poly.as_ref().map(|p| p.sys());
    if pre_func.as_ref().map_or(true, |f| *f == Aff::identity(n)) && neurons <= 7 {
        // activation cells of the reference network (input space == network input space)
        if let Some(cs) = refnet::cells(&layers.iter().take_while(|l| !matches!(l, L::Argmax | L::ClassChar(_))).cloned().collect::<Vec<_>>(), n, pre_sys.as_ref(), 600) {
            for c in cs.iter().take(200) {
                if let Ok((Band::Thick, Some(x), _)) = classify_cell(c) {
                    pts.push(x);
                    ev.inc("network_activation_cells_probed");
                }
            }
        }
    }
    if let Some(p) = &pre_poly {
        for (r, b) in p.mat.iter().zip(p.bias.iter()) {
            pts.extend(gen::on_hyperplane(&mut rng, r, *b, 2));
        }
    }
    let mut n_break = 0u64;
    let mut n_outside = 0u64;
    let mut n_inside = 0u64;
    for x in &pts {
        let xq = qv(x);
        let inside = pre_sys.as_ref().map_or(true, |s| s.contains(&xq));
        // thin-region policy for preconditions: a point of a lower-dimensional / thin part of the
        // precondition may legitimately be pruned by the LP tolerance; the property text itself
        // only exempts rounding, so this is counted separately and reported, see below
        let y_in: Vec<Q> = match &pre_func {
            Some(f) => f.apply_q(&xq),
            None => xq.clone(),
        };
        let got = ts.eval(&xq);
        if !inside {
            n_outside += 1;
            // float regimes: skip inputs within rounding distance of the precondition boundary
            if !exact && !gen::route_rounding_safe(&ts, x) {
                ev.skip("input within rounding distance of a hyperplane (float regime)");
                continue;
            }
            match got {
                TEv::Undef(..) => {}
                other => fail!("c01:defined-outside-precondition", format!("x={:?} is outside the precondition but the tree gives {}", x, other.brief())),
            }
            match lib_vs_exact(&tree, &ts, x, case) {
                Ok(_) => {}
                Err(e) => fail!("c01:evaluate", e),
            }
            continue;
        }
        n_inside += 1;
        let expect = refnet::eval(&layers, &y_in);
        let margin = refnet::min_margin(&layers, &y_in);
        if margin == 0.0 {
            n_break += 1;
        }
        if !exact {
            let scale = 1.0 + y_in.iter().map(|q| q.to_f64().abs()).sum::<f64>();
            if margin < 1e-6 * scale || !gen::route_rounding_safe(&ts, x) {
                ev.skip("input within rounding distance of a breakpoint (float regime)");
                continue;
            }
        }
        match &got {
            TEv::Val(_, v) => {
                if v.len() != expect.len() {
                    fail!("c01:output-dim", format!("x={:?}: tree output has {} components, network {}", x, v.len(), expect.len()));
                }
                for i in 0..v.len() {
                    let ok = if exact {
                        v[i] == expect[i]
                    } else {
                        (v[i].to_f64() - expect[i].to_f64()).abs() <= 1e-9 * (1.0 + expect[i].to_f64().abs() + x.iter().map(|t| t.abs()).sum::<f64>() * 100.0)
                    };
                    if !ok {
                        fail!(
                            if margin == 0.0 { "c01:value-on-breakpoint" } else { "c01:value" },
                            format!("x={:?}: tree gives {:?} but the network gives {:?} (margin to the nearest breakpoint {})", x, v.iter().map(|q| q.to_f64()).collect::<Vec<_>>(), expect.iter().map(|q| q.to_f64()).collect::<Vec<_>>(), margin)
                        );
                    }
                }
            }
            TEv::Undef(nd, l) => {
                // inside the precondition but undefined: is x in a thin part of the precondition?
                let thin = match &pre_sys {
                    Some(s) => !matches!(lpx::classify(s), Ok((Band::Thick, _))),
                    None => false,
                };
                if thin {
                    ev.inc("undefined_inside_a_thin_precondition");
                    continue;
                }
                fail!("c01:undefined-inside-precondition", format!("x={:?} satisfies the precondition but the tree is undefined (node {}, label {})", x, nd, l));
            }
            TEv::Broken(m) => fail!("c01:broken", m.clone()),
        }
        match lib_vs_exact(&tree, &ts, x, case) {
            Ok(_) => {}
            Err(e) => fail!("c01:evaluate", e),
        }
        ev.inc("inputs_checked");
    }
    ev.count("inputs_on_a_breakpoint_or_tie", n_break);
    ev.count("inputs_outside_precondition", n_outside);
    ev.count("inputs_inside_precondition", n_inside);
    ev.inc(&format!("precondition_{}", pre_kind));
    if neurons >= 1 && ts.terminals().len() >= 3 {
        let mut h = Hasher::new();
        h.s(&desc.to_string());
        ev.nontrivial(h.fin());
    }
    if ev.want_sample() && neurons >= 2 {
        ev.sample(json!({"case": desc, "tree_nodes": ts.nodes.len(), "terminals": ts.terminals().len()}));
    }
}
