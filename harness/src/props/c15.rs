//! C15 — constraint clean-up keeps exactly the same point set.
//!
//! Oracle: order-preserving row matching (subsequence) + exact two-way set inclusion (certified
//! simplex) + exact "no surviving row is implied by the others by a margin".

use crate::ev::{Ev, Hasher};
use crate::gen::{self, Aff, Regime};
use crate::lpx::{self, Sys};
use crate::q::{qv, Q};
use crate::rng::Rng;
use crate::util::lib;
use crate::Ctx;
use affinitree::linalg::affine::Polytope;
use affinitree::linalg::polyhedron::PolytopeStatus;
use serde_json::json;

pub const K1_KEY: &str = "K1:minilp-reports-unbounded-but-optimum-finite:nonzero-objective";

fn system(rng: &mut Rng, n: usize) -> (Aff, bool) {
    let rg = if rng.chance(0.7) { Regime::Int } else { Regime::Dyadic };
    let base = 1 + rng.below(4);
    let mut rows: Vec<(Vec<f64>, f64)> = Vec::new();
    let mut near_miss = false;
    for _ in 0..base {
        let r = gen::nonzero_row(rng, n, rg);
        let b = gen::coef(rng, rg) + if rng.chance(0.6) { 2.0 } else { 0.0 };
        rows.push((r, b));
    }
    // bounding rows so that the rank is often full
    if rng.chance(0.5) {
        for j in 0..n {
            let mut r = vec![0.0; n];
            r[j] = 1.0;
            rows.push((r.clone(), 4.0));
            r[j] = -1.0;
            rows.push((r, 4.0));
        }
    }
    let extra = rng.below(5);
    for _ in 0..extra {
        let (r, b) = rows[rng.below(rows.len())].clone();
        match rng.below(8) {
            0 => rows.push((r, b)), // exact duplicate
            1 => {
                let s = *rng.pick(&[2.0, 0.5, 3.0, 4.0]);
                rows.push((r.iter().map(|v| v * s).collect(), b * s)); // positively scaled twin
            }
            2 => {
                near_miss = true;
                rows.push((r.iter().map(|v| -v).collect(), -b)); // negatively scaled twin: equality pair
            }
            3 => {
                near_miss = true;
                rows.push((r, b + rng.int(1, 3) as f64)); // parallel, looser
            }
            4 => {
                near_miss = true;
                rows.push((r, b - rng.int(1, 3) as f64)); // parallel, tighter
            }
            5 => rows.push((vec![0.0; n], *rng.pick(&[1.0, 0.0, 2.5]))), // zero row, tautology
            6 => {
                if rng.chance(0.3) {
                    rows.push((vec![0.0; n], -1.0)); // zero row, contradiction
                } else {
                    rows.push((vec![0.0; n], 0.0));
                }
            }
            _ => {
                near_miss = true;
                rows.push((r.iter().map(|v| -v).collect(), -b - rng.int(1, 2) as f64)); // contradiction with margin
            }
        }
    }
    rng.shuffle(&mut rows);
    if rows.len() > 12 {
        rows.truncate(12);
    }
    (
        Aff {
            mat: rows.iter().map(|r| r.0.clone()).collect(),
            bias: rows.iter().map(|r| r.1).collect(),
        },
        near_miss,
    )
}

/// indices (ascending) of `orig` rows that make up `res`, if `res` is a subsequence of `orig`
fn subsequence(orig: &Aff, res: &Aff) -> Option<Vec<usize>> {
    let mut out = Vec::new();
    let mut j = 0;
    for i in 0..res.mat.len() {
        loop {
            if j >= orig.mat.len() {
                return None;
            }
            if crate::snap::bits_eq(&orig.mat[j], &res.mat[i]) && orig.bias[j] == res.bias[i] {
                out.push(j);
                j += 1;
                break;
            }
            j += 1;
        }
    }
    Some(out)
}

fn is_canonical_empty(a: &Aff, n: usize) -> bool {
    a.mat.len() == 1 && a.mat[0].len() == n && a.mat[0].iter().all(|v| *v == 0.0) && a.bias[0] == -1.0
}
fn is_canonical_unbounded(a: &Aff, n: usize) -> bool {
    a.mat.len() == 1 && a.mat[0].len() == n && a.mat[0].iter().all(|v| *v == 0.0) && a.bias[0] == 1.0
}

pub fn run_case(ctx: &Ctx, case: u64, ev: &mut Ev) {
    let mut rng = Rng::derive(ctx.seed, "C15", case);
    rng.big = crate::draw_big(ctx, &mut rng);
    let n = 1 + rng.below(if rng.big { 6 } else { 4 });
    let (p, near_miss) = system(&mut rng, n);
    // 10 %: a twin of the system in which one row is written in tiny units (multiplied by 2^-60, an exact
    // positive scaling): the same half-space, but every coefficient is below f64::EPSILON - still not a zero
    // row. Fed to remove_tautologies and remove_zero_rows only (exact set comparison): remove_duplicate_rows and
    // remove_redundant_row_constraints are known to mishandle such rows (known findings K3, K2).
    if rng.chance(0.1) && !p.mat.is_empty() {
        let mut pt = p.clone();
        let i = rng.below(pt.mat.len());
        let sc = 2f64.powi(-60);
        for v in pt.mat[i].iter_mut() {
            *v *= sc;
        }
        pt.bias[i] *= sc;
        let syst = pt.sys();
        let lpt = pt.to_poly();
        let dt = json!({"n": n, "P": pt.json(), "note": "row written in tiny units"});
        let outs: Vec<(&str, Result<Aff, String>)> = vec![
            ("remove_tautologies", lib(case, "remove_tautologies (tiny units)", || Aff::from_poly(&lpt.remove_tautologies()))),
            ("remove_zero_rows", lib(case, "remove_zero_rows (tiny units)", || Aff::from_poly(&lpt.remove_zero_rows()))),
        ];
        for (name, r) in outs {
            match r {
                Err(pm) => {
                    ev.violation(case, &format!("c15:{}:panic", name), "", json!({"case": dt, "panic": pm}));
                    return;
                }
                Ok(res) => match lpx::same_set(&syst, &res.sys()) {
                    Ok(true) => ev.inc("tiny_unit_rows_handled"),
                    Ok(false) => {
                        ev.violation(case, &format!("c15:{}", name), "", json!({"case": dt, "problem": format!("{}: result {} denotes a different point set", name, res.json())}));
                        return;
                    }
                    Err(_) => ev.skip("oracle-error"),
                },
            }
        }
    }
    let m = p.mat.len();
    let desc = json!({"n": n, "P": p.json()});
    ev.evaluations += 1;
    let mut h = Hasher::new();
    for r in &p.mat {
        for v in r {
            h.f(*v);
        }
    }
    for v in &p.bias {
        h.f(*v);
    }
    let sys = p.sys();
    let lp = p.to_poly();
    let mut dropped_any = false;

    macro_rules! fail {
        ($sig:expr, $msg:expr) => {{
            ev.violation(case, $sig, "", json!({"case": desc, "problem": $msg}));
            return;
        }};
    }
    macro_rules! call {
        ($what:expr, $e:expr) => {
            match lib(case, $what, || $e) {
                Ok(v) => v,
                Err(pm) => fail!(&format!("c15:{}:panic", $what), pm),
            }
        };
    }
    macro_rules! oracle {
        ($e:expr) => {
            match $e {
                Ok(v) => v,
                Err(_) => {
                    ev.skip("oracle-error");
                    return;
                }
            }
        };
    }
    let input_empty = matches!(oracle!(lpx::feasibility(&sys)), lpx::Feas::Infeasible(_));
    if input_empty {
        ev.inc("empty_inputs");
    }

    // generic check: result is a subsequence (or an allowed canonical form) and denotes the same set
    let check = |name: &str, res: &Aff, ev: &mut Ev| -> Result<Option<Vec<usize>>, String> {
        if res.mat.iter().any(|r| r.len() != n) && !res.mat.is_empty() {
            return Err(format!("{}: result has wrong dimension", name));
        }
        let sub = subsequence(&p, res);
        let canonical_ok = (is_canonical_empty(res, n) && input_empty)
            || (is_canonical_unbounded(res, n) && p.mat.iter().zip(p.bias.iter()).all(|(r, b)| r.iter().all(|v| *v == 0.0) && *b >= 0.0));
        if sub.is_none() && !canonical_ok {
            return Err(format!("{}: result {} is not a subsequence of the original rows", name, res.json()));
        }
        match lpx::same_set(&sys, &res.sys()) {
            Ok(true) => {}
            Ok(false) => return Err(format!("{}: result {} denotes a different point set", name, res.json())),
            Err(_) => {
                ev.skip("oracle-error");
            }
        }
        ev.inc("set_equality_checks");
        Ok(sub)
    };

    // remove_tautologies
    {
        let r = Aff::from_poly(&call!("remove_tautologies", lp.remove_tautologies()));
        match check("remove_tautologies", &r, ev) {
            Err(e) => fail!("c15:remove_tautologies", e),
            Ok(sub) => {
                if r.mat.len() < m {
                    dropped_any = true;
                }
                let _ = sub;
            }
        }
    }
    // remove_duplicate_rows
    {
        let r = Aff::from_poly(&call!("remove_duplicate_rows", lp.remove_duplicate_rows()));
        match check("remove_duplicate_rows", &r, ev) {
            Err(e) => fail!("c15:remove_duplicate_rows", e),
            Ok(_) => {
                if r.mat.len() < m {
                    dropped_any = true;
                }
            }
        }
    }
    // remove_zero_rows (polytope flavour)
    {
        let r = Aff::from_poly(&call!("remove_zero_rows", lp.remove_zero_rows()));
        if !r.mat.is_empty() {
            match check("remove_zero_rows", &r, ev) {
                Err(e) => fail!("c15:remove_zero_rows", e),
                Ok(_) => {}
            }
        }
    }
    // normalize: every row a positive multiple of the original (up to rounding), same membership away from the boundary
    {
        let r = Aff::from_poly(&call!("normalize", lp.clone().normalize()));
        if r.mat.len() != m {
            fail!("c15:normalize:rows", "normalize changed the number of rows".to_string());
        }
        for i in 0..m {
            let norm: f64 = p.mat[i].iter().map(|v| v * v).sum::<f64>().sqrt();
            let lambda = if norm > f64::EPSILON { 1.0 / norm } else { 1.0 };
            for j in 0..n {
                if (r.mat[i][j] - lambda * p.mat[i][j]).abs() > 4.0 * f64::EPSILON * (lambda * p.mat[i][j]).abs() {
                    fail!("c15:normalize", format!("row {}: {:?} is not a positive multiple of {:?}", i, r.mat[i], p.mat[i]));
                }
            }
            if (r.bias[i] - lambda * p.bias[i]).abs() > 4.0 * f64::EPSILON * (lambda * p.bias[i]).abs() {
                fail!("c15:normalize:bias", format!("row {}: bias {} vs {}", i, r.bias[i], lambda * p.bias[i]));
            }
        }
        let pts = gen::lattice(&mut rng, n, 4, 0.5, 60);
        for x in &pts {
            let xq = qv(x);
            let ms = sys.min_slack(&xq).unwrap().to_f64();
            if ms.abs() < 1e-9 {
                continue;
            }
            let inside = r.sys().contains(&xq);
            if inside != (ms > 0.0) {
                fail!("c15:normalize:set", format!("x={:?}: slack {} in the original but membership {} after normalize", x, ms, inside));
            }
        }
    }
    // remove_rows: arbitrary ascending index set => exactly the other rows remain
    {
        let idx: Vec<usize> = (0..m).filter(|_| rng.chance(0.3)).collect();
        if idx.len() < m {
            let r = Aff::from_poly(&call!("remove_rows", lp.remove_rows(idx.clone())));
            let keep: Vec<usize> = (0..m).filter(|i| !idx.contains(i)).collect();
            if r.mat != keep.iter().map(|i| p.mat[*i].clone()).collect::<Vec<_>>() || r.bias != keep.iter().map(|i| p.bias[*i]).collect::<Vec<_>>() {
                fail!("c15:remove_rows", format!("remove_rows({:?}) = {}", idx, r.json()));
            }
        }
        // remove rows that the oracle proves redundant one after another: set must be preserved
        let mut keep: Vec<usize> = (0..m).collect();
        let mut removed: Vec<usize> = Vec::new();
        for i in (0..m).rev() {
            let mut others = Sys::new(n);
            for k in keep.iter().filter(|k| **k != i) {
                others.push(sys.a[*k].clone(), sys.b[*k].clone());
            }
            if others.m() == 0 {
                continue;
            }
            if let Ok((true, _)) = lpx::implies(&others, &sys.a[i], &sys.b[i]) {
                keep.retain(|k| *k != i);
                removed.push(i);
            }
        }
        removed.reverse();
        if !removed.is_empty() && !keep.is_empty() {
            let r = Aff::from_poly(&call!("remove_rows", lp.remove_rows(removed.clone())));
            match lpx::same_set(&sys, &r.sys()) {
                Ok(true) => {}
                Ok(false) => fail!("c15:remove_rows:set", format!("removing the redundant rows {:?} changed the set: {}", removed, r.json())),
                Err(_) => ev.skip("oracle-error"),
            }
            ev.inc("redundant_rows_removed_by_oracle");
        }
    }
    // remove_redundant_row_constraints, with the LP calls logged through the hook
    {
        affinitree::verif::arm(Default::default(), None, true);
        let res = lib(case, "remove_redundant_row_constraints", || lp.remove_redundant_row_constraints());
        let (_ncalls, log) = affinitree::verif::disarm();
        let res = match res {
            Ok(v) => v,
            Err(pm) => fail!("c15:remove_redundant_row_constraints:panic", pm),
        };
        ev.count("lp_calls_logged", log.len() as u64);
        match res {
            Err(msg) => {
                // an Err is the documented way to report a solver error; nothing to check
                ev.skip(&format!("remove_redundant_row_constraints returned Err({})", msg));
            }
            Ok(rp) => {
                let r = Aff::from_poly(&rp);
                let sub = match check("remove_redundant_row_constraints", &r, ev) {
                    Err(e) => fail!("c15:remove_redundant", e),
                    Ok(s) => s,
                };
                if r.mat.len() < m {
                    dropped_any = true;
                    ev.inc("redundant_rows_removed_by_library");
                }
                if let Some(kept) = sub {
                    // no surviving row implied by the other survivors by a margin
                    for (pos, &i) in kept.iter().enumerate() {
                        let mut others = Sys::new(n);
                        for (pos2, &k) in kept.iter().enumerate() {
                            if pos2 != pos {
                                others.push(sys.a[k].clone(), sys.b[k].clone());
                            }
                        }
                        if others.m() == 0 {
                            continue;
                        }
                        let bi = p.bias[i];
                        let margin = Q::from_f64(1e-6 * (1.0 + bi.abs()));
                        let (implied, mx) = match lpx::implies(&others, &sys.a[i], &sys.b[i].sub(&margin)) {
                            Ok(v) => v,
                            Err(_) => {
                                ev.skip("oracle-error");
                                continue;
                            }
                        };
                        ev.inc("kept_rows_refereed");
                        if implied && mx.is_some() {
                            // genuine: the row is implied by a margin but was kept. Is it the known finding K1?
                            // find the library's LP for this row in the log
                            let costs: Vec<f64> = p.mat[i].iter().map(|v| -v).collect();
                            let mut k1 = false;
                            for e in log.iter() {
                                if e.cost.to_vec() == costs && matches!(e.real, PolytopeStatus::Unbounded) {
                                    let mut s = Sys::new(n);
                                    for (row, b) in e.mat.outer_iter().zip(e.bias.iter()) {
                                        s.push_f64(&row.to_vec(), *b);
                                    }
                                    let c = qv(&costs);
                                    let finite = matches!(lpx::minimize(&s, &c), Ok(lpx::Opt::Optimal { .. }));
                                    let rows: Vec<Vec<f64>> = e.mat.outer_iter().map(|r| r.to_vec()).collect();
                                    if finite && costs.iter().any(|v| *v != 0.0) && minilp_says_unbounded(&rows, &e.bias.to_vec(), &costs) {
                                        k1 = true;
                                    }
                                }
                            }
                            ev.violation(
                                case,
                                "c15:remove_redundant:implied-row-kept",
                                if k1 { K1_KEY } else { "" },
                                json!({"case": desc, "result": r.json(), "kept_row": i,
                                       "problem": format!("row {} ({:?} <= {}) survives although the other surviving rows imply it by a margin (their maximum of the row is {})", i, p.mat[i], bi, mx.unwrap().to_f64()),
                                       "k1_predicate": k1}),
                            );
                            if !k1 {
                                return;
                            }
                        }
                    }
                }
            }
        }
    }
    if dropped_any || near_miss {
        ev.nontrivial(h.fin());
    }
    if ev.want_sample() {
        ev.sample(desc);
    }
}

/// Re-execute the committed witness of known finding K1 for C15: returns Ok(true) if it still fails.
pub const K2_KEY: &str = "K2:remove_redundant_row_constraints-drops-a-binding-row-written-in-tiny-units";
pub const K3_KEY: &str = "K3:remove_duplicate_rows-takes-a-row-in-tiny-units-for-a-duplicate-of-a-zero-row";

/// Known findings K2 / K3: re-execute the committed witness; true iff the function still changes the point set.
pub fn k23_witness(w: &serde_json::Value) -> Result<bool, String> {
    let mat: Vec<Vec<f64>> = serde_json::from_value(w["mat"].clone()).map_err(|e| e.to_string())?;
    let bias: Vec<f64> = serde_json::from_value(w["bias"].clone()).map_err(|e| e.to_string())?;
    let func = w["function"].as_str().ok_or("function")?.to_string();
    let p = Aff { mat, bias };
    let res: Aff = match func.as_str() {
        "remove_redundant_row_constraints" => match lib(0, "remove_redundant_row_constraints (K2 witness)", || p.to_poly().remove_redundant_row_constraints())? {
            Ok(rp) => Aff::from_poly(&rp),
            Err(e) => return Err(e),
        },
        "remove_duplicate_rows" => Aff::from_poly(&lib(0, "remove_duplicate_rows (K3 witness)", || p.to_poly().remove_duplicate_rows())?),
        _ => return Err("unknown function in witness".into()),
    };
    match lpx::same_set(&p.sys(), &res.sys()) {
        Ok(same) => Ok(!same),
        Err(e) => Err(e),
    }
}

pub fn k1_witness(w: &serde_json::Value) -> Result<bool, String> {
    let mat: Vec<Vec<f64>> = serde_json::from_value(w["mat"].clone()).map_err(|e| e.to_string())?;
    let bias: Vec<f64> = serde_json::from_value(w["bias"].clone()).map_err(|e| e.to_string())?;
    let redundant_row = w["redundant_row"].as_u64().ok_or("redundant_row")? as usize;
    let p = Aff { mat, bias };
    let r = lib(0, "remove_redundant_row_constraints", || p.to_poly().remove_redundant_row_constraints())?;
    match r {
        Err(e) => Err(e),
        Ok(rp) => {
            let ra = Aff::from_poly(&rp);
            let kept = subsequence(&p, &ra).ok_or("not a subsequence")?;
            Ok(kept.contains(&redundant_row))
        }
    }
}

/// The LP `min c.x s.t. A x <= b` (all variables free) handed to the minilp dependency directly,
/// built here without any affinitree code. True iff minilp itself reports unbounded (error or a
/// non-finite "solution"). Used only to recognise known finding K1 (defect of the dependency).
pub fn minilp_says_unbounded(rows: &[Vec<f64>], bias: &[f64], cost: &[f64]) -> bool {
    use minilp::{ComparisonOp, OptimizationDirection, Problem};
    let mut pb = Problem::new(OptimizationDirection::Minimize);
    let vars: Vec<minilp::Variable> = cost.iter().map(|c| pb.add_var(*c, (f64::NEG_INFINITY, f64::INFINITY))).collect();
    for (r, b) in rows.iter().zip(bias.iter()) {
        // the same LP the library hands to minilp (as_linprog scales every row by a power of two so that its
        // largest coefficient lies in [1, 2), since /repo fix "scale rows ...")
        let mx = r.iter().fold(0.0f64, |a, x| a.max(x.abs()));
        let sc = if mx.is_normal() { 2f64.powi(-(mx.log2().floor() as i32)) } else { 1.0 };
        let lin: Vec<(minilp::Variable, f64)> = vars.iter().cloned().zip(r.iter().map(|v| v * sc)).collect();
        pb.add_constraint(lin.as_slice(), ComparisonOp::Le, *b * sc);
    }
    match pb.solve() {
        Ok(sol) => vars.iter().any(|v| !sol[*v].is_finite()),
        Err(minilp::Error::Unbounded) => true,
        Err(minilp::Error::Infeasible) => false,
    }
}
