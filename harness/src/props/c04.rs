//! C04 — every operation history keeps a tree well-formed and usable.
//!
//! Oracle: well-formedness walker after every step (tree level + AffTree level with the output
//! dimension the type model predicts), exact step-wise functional model on thick cells (which is what
//! exposes a decision posing as a terminal when shapes coincide), panic / abort detection, and a
//! usability battery at the end.

use super::hist::{self, HistCfg, Op};
use crate::ev::{Ev, Hasher};
use crate::gen::{self, Aff};
use crate::rng::Rng;
use crate::snap::snap;
use crate::util::{lib, panic_sig};
use crate::Ctx;
use affinitree::pwl::afftree::AffTree;
use affinitree::pwl::dot::Dot;
use serde_json::json;

/// Regression inputs of repaired defects: trees stored under harness/regress/ are rebuilt node by node and
/// must survive the operation that used to fail.
fn run_regressions(case: u64, ev: &mut Ev) {
    let text = include_str!("../../regress/c04_far_mirror_tree.json");
    let v: serde_json::Value = match serde_json::from_str(text) {
        Ok(v) => v,
        Err(_) => {
            ev.skip("regression input file unreadable");
            return;
        }
    };
    let in_dim = v["in_dim"].as_u64().unwrap_or(0) as usize;
    let mut nodes: std::collections::BTreeMap<usize, (Aff, Vec<Option<usize>>)> = std::collections::BTreeMap::new();
    for n in v["nodes"].as_array().cloned().unwrap_or_default() {
        let idx = n["idx"].as_u64().unwrap() as usize;
        let mat: Vec<Vec<f64>> = serde_json::from_value(n["mat"].clone()).unwrap();
        let bias: Vec<f64> = serde_json::from_value(n["bias"].clone()).unwrap();
        let ch: Vec<Option<usize>> = serde_json::from_value(n["children"].clone()).unwrap();
        nodes.insert(idx, (Aff { mat, bias }, ch));
    }
    let root = v["root"].as_u64().unwrap_or(0) as usize;
    let built = lib(case, "rebuild regression tree", || {
        let mut t = AffTree::<2>::from_aff(nodes[&root].0.to_lib());
        let mut stack = vec![(root, t.tree.get_root_idx())];
        while let Some((old, new)) = stack.pop() {
            for (l, c) in nodes[&old].1.iter().enumerate() {
                if let Some(c) = c {
                    let id = t.add_child_node(new, l, nodes[c].0.to_lib()).unwrap();
                    stack.push((*c, id));
                }
            }
        }
        t
    });
    let mut t = match built {
        Ok(t) => t,
        Err(_) => {
            ev.skip("regression tree could not be rebuilt");
            return;
        }
    };
    if t.in_dim() != in_dim || t.len() != nodes.len() {
        ev.skip("regression tree rebuilt with a different shape");
        return;
    }
    match lib(case, "infeasible_elimination (regression: far mirror tree)", || t.infeasible_elimination()) {
        Ok(_) => ev.inc("regression_inputs_survived"),
        Err(p) => ev.violation(
            case,
            &format!("c04:panic:eliminate:{}", panic_sig(&p)),
            "",
            json!({"regression_input": "harness/regress/c04_far_mirror_tree.json", "op": "infeasible_elimination", "panic": p}),
        ),
    }
}

/// Very deep list-like trees on an ordinary 2 MiB thread stack (the worker threads of the harness have
/// 64 MiB, which would hide recursion that grows with the depth of the tree): a chain of `depth` decisions
/// built by from_poly whose second constraint contradicts the first, so that infeasible_elimination meets
/// an infeasible node with a subtree `depth - 2` levels deep (counted, skipped and removed), followed by the
/// usual operations. Everything must complete; a stack overflow aborts the worker and is attributed to this
/// case through the write-ahead marker.
fn run_deep_chain(case: u64, rng: &mut Rng, ev: &mut Ev, depth: usize) {
    let contradiction_at = 1 + rng.below(3);
    let mut mat: Vec<Vec<f64>> = Vec::with_capacity(depth);
    let mut bias: Vec<f64> = Vec::with_capacity(depth);
    for k in 0..depth {
        if k == contradiction_at {
            mat.push(vec![-1.0]);
            bias.push(-1.0); // x >= 1, contradicts x <= 0 below
        } else {
            mat.push(vec![1.0]);
            bias.push(if k == 0 { 0.0 } else { 1.0 + (k % 7) as f64 });
        }
    }
    let p = Aff { mat, bias };
    let ft = Aff { mat: vec![vec![2.0]], bias: vec![1.0] };
    let ff = Aff { mat: vec![vec![-1.0]], bias: vec![3.0] };
    ev.evaluations += 1;
    let desc = json!({"deep_chain": {"depth": depth, "contradiction_at_row": contradiction_at, "thread_stack_bytes": 2 << 20}});
    let (poly, ftl, ffl) = (p.to_poly(), ft.to_lib(), ff.to_lib());
    crate::util::wal(&format!("IN-SMALL-STACK-THREAD case={} deep chain of depth {} (from_poly, infeasible_elimination, apply_func, reduce, compose) on a 2 MiB stack", case, depth));
    let handle = std::thread::Builder::new().stack_size(2 << 20).spawn(move || -> Result<(usize, usize, Option<Vec<f64>>, Option<Vec<f64>>), String> {
        let r = std::panic::catch_unwind(std::panic::AssertUnwindSafe(|| {
            let mut t = AffTree::<2>::from_poly(poly, ftl, Some(&ffl)).map_err(|e| format!("from_poly: {}", e))?;
            let len0 = t.len();
            let _ = t.depth();
            let _ = t.num_terminals();
            t.infeasible_elimination();
            let mut a = Aff::identity(1);
            a.bias[0] = 1.0;
            t.apply_func(&a.to_lib());
            t.reduce();
            let g = affinitree::distill::schema::partial_ReLU(1, 0);
            t.compose::<true, false>(&g);
            let v1 = t.evaluate(&crate::gen::arr1(&[-2.0])).map(|v| v.to_vec());
            let v2 = t.evaluate(&crate::gen::arr1(&[0.5])).map(|v| v.to_vec());
            let u = t.clone();
            drop(t);
            Ok::<_, String>((len0, u.len(), v1, v2))
        }));
        match r {
            Ok(x) => x,
            Err(e) => Err(format!("panic: {}", e.downcast_ref::<String>().cloned().or_else(|| e.downcast_ref::<&str>().map(|s| s.to_string())).unwrap_or_default())),
        }
    });
    let res = match handle {
        Ok(h) => {
            let r = h.join().unwrap_or_else(|_| Err("thread died".into()));
            crate::util::wal(&format!("case={} small-stack thread finished", case));
            r
        }
        Err(_) => {
            ev.skip("could not spawn the small-stack thread");
            return;
        }
    };
    match res {
        Err(e) => ev.violation(case, "c04:deep-chain", "", json!({"case": desc, "problem": e})),
        Ok((len0, len1, v1, v2)) => {
            // x = -2: inside x <= 0, fails x >= 1 -> else branch -x + 3 = 5, +1 = 6, ReLU -> 6
            // x = 0.5: fails x <= 0 -> else branch 2.5, +1 = 3.5
            if len0 != 2 * depth + 1 || v1 != Some(vec![6.0]) || v2 != Some(vec![3.5]) {
                ev.violation(case, "c04:deep-chain:function", "", json!({"case": desc, "len_before": len0, "len_after": len1, "values": [v1, v2], "expected": [[6.0], [3.5]]}));
                return;
            }
            ev.inc("deep_chains_survived_on_a_2MiB_stack");
            ev.count("deep_chain_nodes", len0 as u64);
        }
    }
}

pub fn run_case(ctx: &Ctx, case: u64, ev: &mut Ev) {
    if case == 0 {
        run_regressions(case, ev);
    }
    if case % 1500 == 7 {
        let mut rng = Rng::derive(ctx.seed, "C04-deep", case);
        let depth = if ctx.tier == crate::Tier::Thorough { 150_000 + rng.below(150_000) } else { 60_000 + rng.below(40_000) };
        run_deep_chain(case, &mut rng, ev, depth);
        return;
    }
    let mut rng = Rng::derive(ctx.seed, "C04", case);
    rng.big = crate::draw_big(ctx, &mut rng);
    // swarm configuration
    let cfg = HistCfg {
        max_ops: if rng.big { 40 } else { *rng.pick(&[3usize, 6, 10, 16, 25]) },
        prune_bias: *rng.pick(&[0.2, 0.5, 0.8]),
        partial_bias: *rng.pick(&[0.0, 0.3, 0.7]),
        allow_inexact: rng.chance(0.15),
        max_nodes_hint: 400,
    };
    let h = hist::generate(&mut rng, &cfg);
    let hj = hist::history_json(&h);
    ev.evaluations += 1;
    let _hook = crate::util::HookGuard::new();
    let mut t = match lib(case, "constructor", || hist::construct(&h.ctor, &mut rng.clone())) {
        Ok(Ok(t)) => t,
        Ok(Err(e)) => {
            ev.skip(&format!("constructor returned Err: {}", e));
            return;
        }
        Err(p) => {
            ev.violation(case, "c04:constructor:panic", "", json!({"history": hj, "panic": p}));
            return;
        }
    };
    let mut out_dim = hist::ctor_out_dim(&h.ctor);
    let mut prev = snap(&t);
    if let Err(e) = prev.wf_aff(Some(out_dim)) {
        ev.violation(case, "c04:constructor:malformed", "", json!({"history": hj, "problem": e}));
        return;
    }
    let mut kinds: Vec<&'static str> = Vec::new();
    let mut n_prune = 0;
    let mut n_struct = 0;
    for (step, op) in h.ops.iter().enumerate() {
        if prev.nodes.len() > 1500 {
            ev.inc("histories_cut_for_size");
            break;
        }
        let operand = hist::operand(op, out_dim, &mut rng);
        let res = hist::apply(op, t, &operand, case, step);
        t = match res {
            Ok(t) => t,
            Err(p) => {
                ev.violation(
                    case,
                    &format!("c04:panic:{}:{}", op.kind(), panic_sig(&p)),
                    "",
                    json!({"history": hj, "failed_step": step, "op": op.name(), "panic": p, "lp_query_inside_the_solver": crate::util::take_pending_lp(), "tree_before_step": prev.to_json()}),
                );
                return;
            }
        };
        out_dim = hist::out_dim_after(op, out_dim);
        let cur = snap(&t);
        if let Err(e) = cur.wf_aff(Some(out_dim)) {
            ev.violation(
                case,
                &format!("c04:malformed:{}", op.kind()),
                "",
                json!({"history": hj, "failed_step": step, "op": op.name(), "problem": e, "tree_before_step": prev.to_json(), "tree_after_step": cur.to_json()}),
            );
            return;
        }
        if h.exact {
            let pts = gen::probes(&mut rng, &[&cur], cur.in_dim, 12);
            if let Err(e) = hist::check_step(op, &prev, &cur, &operand, &pts, ev) {
                ev.violation(
                    case,
                    &format!("c04:function:{}", op.kind()),
                    "",
                    json!({"history": hj, "failed_step": step, "op": op.name(), "problem": e, "tree_before_step": prev.to_json(), "tree_after_step": cur.to_json()}),
                );
                return;
            }
        }
        ev.inc(&format!("op_{}", op.kind()));
        kinds.push(op.kind());
        if op.is_pruning() {
            n_prune += 1;
        }
        if op.changes_structure() {
            n_struct += 1;
        }
        prev = cur;
    }
    // usability battery
    let pts = gen::lattice(&mut rng, prev.in_dim, 2, 1.0, 15);
    let battery = lib(case, "usability battery", || {
        for x in &pts {
            let _ = t.evaluate(&gen::arr1(x));
        }
        let _ = format!("{}", t);
        let _ = format!("{:?}", t);
        let _ = format!("{}", Dot::from(&t));
        let _ = t.polyhedra_iter().count();
        let _ = t.depth_stats();
        let _ = t.num_terminals();
        let mut t2 = t.clone();
        t2.infeasible_elimination();
        t2.reduce();
        let _ = t2.len();
    });
    if let Err(p) = battery {
        ev.violation(case, &format!("c04:unusable:{}", panic_sig(&p)), "", json!({"history": hj, "panic": p, "lp_query_inside_the_solver": crate::util::take_pending_lp(), "final_tree": prev.to_json()}));
        return;
    }
    ev.count("final_tree_nodes", prev.nodes.len() as u64);
    if n_prune >= 1 && n_struct >= 2 {
        let mut hh = Hasher::new();
        hh.s(&hist::ctor_name(&h.ctor).split('(').next().unwrap_or("").to_string());
        for k in &kinds {
            hh.s(k);
        }
        ev.nontrivial(hh.fin());
    }
    if kinds.windows(2).any(|w| w[0] == "compose" && (w[1] == "compose_pruned" || w[1] == "eliminate")) {
        ev.inc("histories_unpruned_then_pruned");
    }
    if !h.exact {
        ev.inc("histories_with_inexact_schema_wf_only");
    }
    if ev.want_sample() {
        ev.sample(hj);
    }
    let _ = Op::Neg;
}
