//! C16 — affine functions obey their algebra and named constructors their names.
//!
//! Oracle: every defining identity is evaluated exactly (Q) on the stored f64 coefficients.

use crate::ev::{Ev, Hasher};
use crate::gen::{self, arr1, arr2, Aff, Regime};
use crate::q::{dot, qv, Q};
use crate::rng::Rng;
use crate::util::lib;
use crate::Ctx;
use affinitree::linalg::affine::{AffFunc, PolyRepr, Polytope};
use ndarray::{Array1, Axis};
use serde_json::json;

/// exact value of sum(a_i*b_i) + add and a rounding allowance for an f64 evaluation of it
pub fn dot_bound(a: &[f64], b: &[f64], add: f64) -> (Q, f64, bool) {
    let exact = dot(&qv(a), &qv(b)).add(&Q::from_f64(add));
    let mag: f64 = a.iter().zip(b.iter()).map(|(x, y)| (x * y).abs()).sum::<f64>() + add.abs();
    let order_free = gen::order_free_exact(a, b, add);
    (exact, mag * (a.len() as f64 + 3.0) * f64::EPSILON, order_free)
}

pub fn close(lib: f64, exact: &Q, tol: f64, order_free: bool) -> bool {
    if !lib.is_finite() {
        return false;
    }
    if order_free {
        Q::from_f64(lib) == *exact
    } else {
        (lib - exact.to_f64()).abs() <= tol
    }
}

fn regime(rng: &mut Rng) -> Regime {
    match rng.below(10) {
        0..=3 => Regime::Int,
        4..=6 => Regime::Dyadic,
        7..=8 => Regime::Short,
        _ => Regime::Full,
    }
}

pub fn point(rng: &mut Rng, n: usize, r: Regime) -> Vec<f64> {
    (0..n)
        .map(|_| match r {
            Regime::Int => rng.int(-5, 5) as f64,
            Regime::Dyadic => rng.int(-10, 10) as f64 / 2.0,
            Regime::Short => (rng.gauss() * 3.0 * 256.0).round() / 256.0,
            Regime::Full => rng.gauss() * 3.0,
        })
        .collect()
}

fn nonzero_aff(rng: &mut Rng, m: usize, n: usize) -> Aff {
    // divisors: non-zero powers of two times small odd numbers => quotients are normal floats
    Aff {
        mat: (0..m)
            .map(|_| (0..n).map(|_| *rng.pick(&[1.0, -1.0, 2.0, -2.0, 0.5, -0.5, 4.0, 3.0, -3.0])).collect())
            .collect(),
        bias: (0..m).map(|_| *rng.pick(&[1.0, -1.0, 2.0, -2.0, 0.5, 4.0, 3.0])).collect(),
    }
}

/// Evaluate a library function (given by stored mat/bias) exactly at x.
fn eval_q(f: &Aff, x: &[f64]) -> Vec<Q> {
    f.apply_q(&qv(x))
}

pub fn run_case(ctx: &Ctx, case: u64, ev: &mut Ev) {
    let mut rng = Rng::derive(ctx.seed, "C16", case);
    rng.big = crate::draw_big(ctx, &mut rng);
    let rg = regime(&mut rng);
    let dmax = if rng.big { 9 } else { 5 };
    let n = 1 + rng.below(dmax);
    let m = 1 + rng.below(dmax);
    let k = 1 + rng.below(dmax);
    let f = gen::aff(&mut rng, m, n, rg); // R^n -> R^m
    let g = gen::aff(&mut rng, n, k, rg); // R^k -> R^n
    let f2 = gen::aff(&mut rng, m, n, rg); // same shape as f
    let xs_n: Vec<Vec<f64>> = (0..4).map(|_| point(&mut rng, n, rg)).collect();
    let xs_k: Vec<Vec<f64>> = (0..4).map(|_| point(&mut rng, k, rg)).collect();
    let desc = json!({"regime": rg.name(), "f": f.json(), "g": g.json(), "f2": f2.json()});
    let mut h = Hasher::new();
    h.s(rg.name());
    for a in [&f, &g, &f2] {
        for r in &a.mat {
            for v in r {
                h.f(*v);
            }
        }
        for v in &a.bias {
            h.f(*v);
        }
    }
    ev.evaluations += 1;

    macro_rules! fail {
        ($sig:expr, $msg:expr) => {{
            ev.violation(case, $sig, "", json!({"case": desc, "problem": $msg}));
            return;
        }};
    }
    macro_rules! call {
        ($what:expr, $e:expr) => {
            match lib(case, $what, || $e) {
                Ok(v) => v,
                Err(p) => fail!(&format!("c16:{}:panic", $what), p),
            }
        };
    }

    let lf = f.to_lib();
    let lg = g.to_lib();
    let lf2 = f2.to_lib();

    // ---- apply
    for x in &xs_n {
        let y = call!("apply", lf.apply(&arr1(x)));
        for i in 0..m {
            let (ex, tol, of) = dot_bound(&f.mat[i], x, f.bias[i]);
            if !close(y[i], &ex, tol, of) {
                fail!("c16:apply", format!("f({:?})[{}] = {:e}, exact {:e}", x, i, y[i], ex.to_f64()));
            }
        }
        ev.inc("apply_checks");
    }

    // ---- compose: h = f∘g, coefficients and values
    let hc = call!("compose", lf.compose(&lg));
    let hca = Aff::from_lib(&hc);
    if hca.indim() != k || hca.outdim() != m {
        fail!("c16:compose:shape", format!("compose has shape {}x{}", hca.outdim(), hca.indim()));
    }
    for i in 0..m {
        for j in 0..k {
            let col: Vec<f64> = (0..n).map(|t| g.mat[t][j]).collect();
            let (ex, tol, of) = dot_bound(&f.mat[i], &col, 0.0);
            if !close(hca.mat[i][j], &ex, tol, of) {
                fail!("c16:compose:matrix", format!("compose.mat[{}][{}] = {:e}, exact (F*G) = {:e}", i, j, hca.mat[i][j], ex.to_f64()));
            }
        }
        let (ex, tol, of) = dot_bound(&f.mat[i], &g.bias, f.bias[i]);
        if !close(hca.bias[i], &ex, tol, of) {
            fail!("c16:compose:bias", format!("compose.bias[{}] = {:e}, exact F*g_b+f_b = {:e}", i, hca.bias[i], ex.to_f64()));
        }
    }
    for x in &xs_k {
        // identity compose(f,g)(x) = f(g(x)) on the stored result, exactly when everything is exact
        let gx = eval_q(&g, x);
        let fgx: Vec<Q> = f.apply_q(&gx);
        let hx = eval_q(&hca, x);
        for i in 0..m {
            let d = hx[i].sub(&fgx[i]).to_f64().abs();
            let scale = 1.0 + fgx[i].to_f64().abs() + f.mat[i].iter().map(|v| v.abs()).sum::<f64>() * (1.0 + gx.iter().map(|q| q.to_f64().abs()).sum::<f64>());
            let ok = if rg.is_exact() { hx[i] == fgx[i] } else { d <= 1e-12 * scale * 64.0 };
            if !ok {
                fail!("c16:compose:identity", format!("compose(f,g)({:?})[{}] = {:e} but f(g(x)) = {:e}", x, i, hx[i].to_f64(), fgx[i].to_f64()));
            }
        }
        ev.inc("compose_checks");
    }

    // ---- stack
    let st = call!("stack", lf.stack(&lf2));
    let sta = Aff::from_lib(&st);
    let mut exp = f.clone();
    exp.mat.extend(f2.mat.clone());
    exp.bias.extend(f2.bias.clone());
    if sta != exp {
        fail!("c16:stack", format!("stack = {} expected {}", sta.json(), exp.json()));
    }

    // ---- coefficient-wise operators in all ownership forms
    let div = nonzero_aff(&mut rng, m, n);
    let ld = div.to_lib();
    let ops: [(&str, fn(f64, f64) -> f64); 5] = [
        ("add", |a, b| a + b),
        ("sub", |a, b| a - b),
        ("mul", |a, b| a * b),
        ("div", |a, b| a / b),
        ("rem", |a, b| a % b),
    ];
    for (name, op) in ops.iter() {
        let (rhs, lrhs) = if *name == "div" || *name == "rem" { (&div, &ld) } else { (&f2, &lf2) };
        let expect = Aff {
            mat: (0..m).map(|i| (0..n).map(|j| op(f.mat[i][j], rhs.mat[i][j])).collect()).collect(),
            bias: (0..m).map(|i| op(f.bias[i], rhs.bias[i])).collect(),
        };
        if expect.mat.iter().flatten().chain(expect.bias.iter()).any(|v| !(v.is_normal() || *v == 0.0)) {
            ev.skip("operator result not a normal float");
            continue;
        }
        let variants: Vec<(&str, AffFunc)> = match *name {
            "add" => vec![
                ("&f+&g", call!("add", &lf + lrhs)),
                ("&fv+&gv", call!("add", &lf.view() + &lrhs.view())),
                ("f+g", call!("add", lf.clone() + lrhs.clone())),
                ("f+gv", call!("add", lf.clone() + lrhs.view())),
                ("f+&g", call!("add", lf.clone() + lrhs)),
                ("f+&gv", call!("add", lf.clone() + &lrhs.view())),
            ],
            "sub" => vec![
                ("&f-&g", call!("sub", &lf - lrhs)),
                ("&fv-&gv", call!("sub", &lf.view() - &lrhs.view())),
                ("f-g", call!("sub", lf.clone() - lrhs.clone())),
                ("f-gv", call!("sub", lf.clone() - lrhs.view())),
                ("f-&g", call!("sub", lf.clone() - lrhs)),
                ("f-&gv", call!("sub", lf.clone() - &lrhs.view())),
            ],
            "mul" => vec![
                ("&f*&g", call!("mul", &lf * lrhs)),
                ("&fv*&gv", call!("mul", &lf.view() * &lrhs.view())),
                ("f*g", call!("mul", lf.clone() * lrhs.clone())),
                ("f*gv", call!("mul", lf.clone() * lrhs.view())),
                ("f*&g", call!("mul", lf.clone() * lrhs)),
                ("f*&gv", call!("mul", lf.clone() * &lrhs.view())),
            ],
            "div" => vec![
                ("&f/&g", call!("div", &lf / lrhs)),
                ("&fv/&gv", call!("div", &lf.view() / &lrhs.view())),
                ("f/g", call!("div", lf.clone() / lrhs.clone())),
                ("f/gv", call!("div", lf.clone() / lrhs.view())),
                ("f/&g", call!("div", lf.clone() / lrhs)),
                ("f/&gv", call!("div", lf.clone() / &lrhs.view())),
            ],
            _ => vec![
                ("&f%&g", call!("rem", &lf % lrhs)),
                ("&fv%&gv", call!("rem", &lf.view() % &lrhs.view())),
                ("f%g", call!("rem", lf.clone() % lrhs.clone())),
                ("f%gv", call!("rem", lf.clone() % lrhs.view())),
                ("f%&g", call!("rem", lf.clone() % lrhs)),
                ("f%&gv", call!("rem", lf.clone() % &lrhs.view())),
            ],
        };
        for (vn, res) in variants {
            let ra = Aff::from_lib(&res);
            if !(crate::snap::bits_eq_mat(&ra.mat, &expect.mat) && crate::snap::bits_eq(&ra.bias, &expect.bias)) {
                fail!(&format!("c16:op:{}", name), format!("{}: got {} expected coefficient-wise {}", vn, ra.json(), expect.json()));
            }
            ev.inc("operator_form_checks");
        }
        // point-wise meaning for + and -
        if rg.is_exact() && (*name == "add" || *name == "sub") {
            for x in &xs_n {
                let a = eval_q(&f, x);
                let b = eval_q(rhs, x);
                let r = eval_q(&expect, x);
                for i in 0..m {
                    let e = if *name == "add" { a[i].add(&b[i]) } else { a[i].sub(&b[i]) };
                    if r[i] != e {
                        fail!(&format!("c16:op:{}:pointwise", name), format!("({} f g)({:?})[{}]", name, x, i));
                    }
                }
            }
        }
    }
    // ---- negation
    let negexp = Aff {
        mat: f.mat.iter().map(|r| r.iter().map(|v| -v).collect()).collect(),
        bias: f.bias.iter().map(|v| -v).collect(),
    };
    let negs: Vec<(&str, AffFunc)> = vec![
        ("-f", call!("neg", -lf.clone())),
        ("-&f", call!("neg", -&lf)),
        ("-&fv", call!("neg", -&lf.view())),
        ("negate", call!("negate", lf.clone().negate())),
    ];
    for (vn, r) in negs {
        if Aff::from_lib(&r) != negexp {
            fail!("c16:neg", format!("{}: got {} expected {}", vn, Aff::from_lib(&r).json(), negexp.json()));
        }
    }

    // ---- apply_transpose: mat^T (x - bias)
    {
        let y = point(&mut rng, m, rg);
        let r = call!("apply_transpose", lf.apply_transpose(&arr1(&y)));
        for j in 0..n {
            let col: Vec<f64> = (0..m).map(|i| f.mat[i][j]).collect();
            let diff: Vec<Q> = (0..m).map(|i| Q::from_f64(y[i]).sub(&Q::from_f64(f.bias[i]))).collect();
            let ex = dot(&qv(&col), &diff);
            let mag: f64 = (0..m).map(|i| (col[i] * (y[i] - f.bias[i])).abs()).sum::<f64>() + 1e-300;
            let ok = if rg.is_exact() { Q::from_f64(r[j]) == ex } else { (r[j] - ex.to_f64()).abs() <= mag * 16.0 * f64::EPSILON };
            if !ok {
                fail!("c16:apply_transpose", format!("apply_transpose({:?})[{}] = {:e}, exact {:e}", y, j, r[j], ex.to_f64()));
            }
        }
    }

    // ---- row / row_iter / remove_rows / from_row_iter / view / to_owned / conversions
    for i in 0..m {
        let r = call!("row", lf.row(i).to_owned());
        let ra = Aff::from_lib(&r);
        if ra.mat != vec![f.mat[i].clone()] || ra.bias != vec![f.bias[i]] {
            fail!("c16:row", format!("row({}) = {}", i, ra.json()));
        }
    }
    let rows: Vec<Aff> = call!("row_iter", lf.row_iter().map(|r| Aff::from_lib(&r.to_owned())).collect());
    if rows.len() != m || (0..m).any(|i| rows[i].mat != vec![f.mat[i].clone()] || rows[i].bias != vec![f.bias[i]]) {
        fail!("c16:row_iter", "row_iter does not enumerate the rows in order".to_string());
    }
    let rm: Vec<usize> = (0..m).filter(|_| rng.chance(0.4)).collect();
    let rr = call!("remove_rows", lf.remove_rows(rm.clone()));
    let keep: Vec<usize> = (0..m).filter(|i| !rm.contains(i)).collect();
    let rra = Aff::from_lib(&rr);
    if rra.bias != keep.iter().map(|i| f.bias[*i]).collect::<Vec<_>>()
        || rra.mat != keep.iter().map(|i| f.mat[*i].clone()).collect::<Vec<_>>()
        || (keep.len() > 0 && rra.indim() != n)
    {
        fail!("c16:remove_rows", format!("remove_rows({:?}) = {}", rm, rra.json()));
    }
    {
        let a2 = arr2(&f.mat, n);
        let b1 = Array1::from(f.bias.clone());
        let fr = call!("from_row_iter", AffFunc::from_row_iter(n, m, a2.axis_iter(Axis(0)).zip(b1.iter())));
        if Aff::from_lib(&fr) != f {
            fail!("c16:from_row_iter", "from_row_iter does not reproduce the rows".to_string());
        }
    }
    {
        let v = lf.view();
        let o = v.to_owned();
        let p = lf.as_polytope();
        let back = p.as_function();
        let pn = Polytope::new(lf.clone());
        if Aff::from_lib(&o) != f || Aff::from_poly(&p) != f || Aff::from_lib(&back) != f || Aff::from_poly(&pn) != f {
            fail!("c16:conversions", "view/to_owned/as_polytope/as_function changed the coefficients".to_string());
        }
    }
    // zero rows / zero columns
    {
        let mut z = f.clone();
        let mut zero_rows = Vec::new();
        for i in 0..m {
            if rng.chance(0.35) {
                // exactly zero, or (one time in four) tiny but non-zero (2^-60: below f64::EPSILON): not a zero row
                let tiny = rng.chance(0.25);
                for v in z.mat[i].iter_mut() {
                    *v = if tiny { 2f64.powi(-60) * if rng.chance(0.5) { 1.0 } else { -3.0 } } else { 0.0 };
                }
                if rng.chance(0.6) {
                    z.bias[i] = if tiny && rng.chance(0.5) { 2f64.powi(-60) } else { 0.0 };
                }
            }
            if z.mat[i].iter().all(|v| *v == 0.0) && z.bias[i] == 0.0 {
                zero_rows.push(i);
            }
        }
        let r = call!("remove_zero_rows", z.to_lib().remove_zero_rows());
        let ra = Aff::from_lib(&r);
        let keep: Vec<usize> = (0..m).filter(|i| !zero_rows.contains(i)).collect();
        if ra.bias != keep.iter().map(|i| z.bias[*i]).collect::<Vec<_>>() || ra.mat != keep.iter().map(|i| z.mat[*i].clone()).collect::<Vec<_>>() {
            fail!("c16:remove_zero_rows", format!("remove_zero_rows of {} = {}", z.json(), ra.json()));
        }
        let mut zc = f.clone();
        let mut zero_cols = Vec::new();
        for j in 0..n {
            if rng.chance(0.35) {
                let tiny = rng.chance(0.25);
                for i in 0..m {
                    zc.mat[i][j] = if tiny { 2f64.powi(-60) * if rng.chance(0.5) { 1.0 } else { -3.0 } } else { 0.0 };
                }
            }
            if (0..m).all(|i| zc.mat[i][j] == 0.0) {
                zero_cols.push(j);
            }
        }
        if zero_cols.len() < n {
            let r = call!("remove_zero_columns", zc.to_lib().remove_zero_columns());
            let ra = Aff::from_lib(&r);
            let keepc: Vec<usize> = (0..n).filter(|j| !zero_cols.contains(j)).collect();
            if ra.indim() != keepc.len() || ra.outdim() != m {
                fail!("c16:remove_zero_columns:shape", format!("{} -> {}", zc.json(), ra.json()));
            }
            for x in &xs_n {
                let xr: Vec<f64> = keepc.iter().map(|j| x[*j]).collect();
                if eval_q(&zc, x) != eval_q(&ra, &xr) {
                    fail!("c16:remove_zero_columns", format!("{} vs {} at {:?}", zc.json(), ra.json(), x));
                }
            }
        } else {
            ev.skip("remove_zero_columns on an all-zero matrix (outside the property)");
        }
    }
    // convert_to x 4 representations: sign condition holds iff x in P
    {
        let p = f.to_poly();
        for repr in [PolyRepr::MatrixLeqBias, PolyRepr::MatrixBiasLeqZero, PolyRepr::MatrixGeqBias, PolyRepr::MatrixBiasGeqZero] {
            let c = Aff::from_lib(&call!("convert_to", p.clone().convert_to(repr)));
            let mut pts = xs_n.clone();
            for i in 0..m {
                pts.extend(gen::on_hyperplane(&mut rng, &f.mat[i], f.bias[i], 1));
            }
            for x in &pts {
                let xq = qv(x);
                let inside = (0..m).all(|i| dot(&qv(&f.mat[i]), &xq).le(&Q::from_f64(f.bias[i])));
                let cond = (0..m).all(|i| {
                    let lin = dot(&qv(&c.mat[i]), &xq);
                    let b = Q::from_f64(c.bias[i]);
                    match repr {
                        PolyRepr::MatrixLeqBias => lin.le(&b),
                        PolyRepr::MatrixBiasLeqZero => lin.add(&b).le(&Q::zero()),
                        PolyRepr::MatrixGeqBias => lin.ge(&b),
                        PolyRepr::MatrixBiasGeqZero => lin.add(&b).ge(&Q::zero()),
                    }
                });
                if inside != cond {
                    fail!("c16:convert_to", format!("{:?}: x={:?} in P = {} but converted condition = {}", repr, x, inside, cond));
                }
                ev.inc("convert_to_checks");
            }
        }
    }

    // ---- named constructors
    let d = 1 + rng.below(5);
    let x = point(&mut rng, d, rg);
    let xq = qv(&x);
    let i0 = rng.below(d);
    let i1 = rng.below(d);
    let val = gen::coef(&mut rng, rg);
    let check = |name: &str, fun: &AffFunc, expect: Vec<Q>, ev: &mut Ev| -> Option<String> {
        let a = Aff::from_lib(fun);
        if a.indim() != d && !(a.outdim() == 0) {
            return Some(format!("{}: input dim {} expected {}", name, a.indim(), d));
        }
        let got = a.apply_q(&xq);
        ev.inc("constructor_checks");
        if got != expect {
            Some(format!("{}: at x={:?} gives {:?} expected {:?} (function {})", name, x, got.iter().map(|q| q.to_f64()).collect::<Vec<_>>(), expect.iter().map(|q| q.to_f64()).collect::<Vec<_>>(), a.json()))
        } else {
            None
        }
    };
    macro_rules! ctor {
        ($name:expr, $e:expr, $exp:expr) => {{
            let fun = call!($name, $e);
            if let Some(msg) = check($name, &fun, $exp, ev) {
                fail!(&format!("c16:ctor:{}", $name), msg);
            }
        }};
    }
    ctor!("identity", AffFunc::identity(d), xq.clone());
    ctor!("zeros", AffFunc::zeros(d), vec![Q::zero(); d]);
    ctor!("constant", AffFunc::constant(d, val), vec![Q::from_f64(val)]);
    ctor!("unit", AffFunc::unit(d, i0), vec![xq[i0].clone()]);
    {
        let mut e = xq.clone();
        e[i0] = Q::zero();
        ctor!("zero_idx", AffFunc::zero_idx(d, i0), e);
    }
    ctor!("sum", AffFunc::sum(d), vec![xq.iter().fold(Q::zero(), |a, b| a.add(b))]);
    ctor!("subtraction", AffFunc::subtraction(d, i0, i1), vec![xq[i0].sub(&xq[i1])]);
    {
        let sc: Vec<f64> = (0..d).map(|_| gen::coef(&mut rng, rg)).collect();
        ctor!("scaling", AffFunc::scaling(&arr1(&sc)), (0..d).map(|i| xq[i].mul(&Q::from_f64(sc[i]))).collect());
        ctor!("uniform_scaling", AffFunc::uniform_scaling(d, val), (0..d).map(|i| xq[i].mul(&Q::from_f64(val))).collect());
        let rot = gen::aff(&mut rng, d, d, rg);
        ctor!("rotation", AffFunc::rotation(arr2(&rot.mat, d)), (0..d).map(|i| dot(&qv(&rot.mat[i]), &xq)).collect());
        let off: Vec<f64> = (0..d).map(|_| gen::coef(&mut rng, rg)).collect();
        ctor!("translation", AffFunc::translation(d, arr1(&off)), (0..d).map(|i| xq[i].add(&Q::from_f64(off[i]))).collect());
        let refp: Vec<f64> = (0..d).map(|_| if rng.chance(0.5) { f64::NAN } else { gen::coef(&mut rng, rg) }).collect();
        ctor!("slice", AffFunc::slice(&arr1(&refp)), (0..d).map(|i| if refp[i].is_nan() { xq[i].clone() } else { Q::from_f64(refp[i]) }).collect());
    }

    if n >= 2 && m >= 2 {
        ev.nontrivial(h.fin());
    }
    if ev.want_sample() {
        ev.sample(desc);
    }
}
