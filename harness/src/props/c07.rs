//! C07 — tree arithmetic is the point-wise lifting of affine arithmetic.
//!
//! Oracle: per probe input, the terminals reached in a and b (exact walk) determine the expected
//! terminal function (the same IEEE operator applied coefficient-wise); the terminal reached in
//! the result must hold exactly that function, definedness must be the conjunction (S5 rule
//! because the operators prune on the fly).

use super::common::*;
use crate::ev::{Ev, Hasher};
use crate::gen::{self, Aff, Regime, Spec, TreeCfg};
use crate::lpx::Band;
use crate::q::qv;
use crate::rng::Rng;
use crate::snap::{snap, Ev as TEv, SNode, Snap};
use crate::util::lib;
use crate::Ctx;
use affinitree::pwl::afftree::AffTree;
use serde_json::json;
use std::collections::BTreeMap;

pub fn run_case(ctx: &Ctx, case: u64, ev: &mut Ev) {
    let mut rng = Rng::derive(ctx.seed, "C07", case);
    rng.big = crate::draw_big(ctx, &mut rng);
    if rng.chance(0.65) {
        run_pair(case, &mut rng, ev, "c07", false);
    } else {
        run_affine(case, &mut rng, ev);
    }
}

const SAFE: [f64; 8] = [1.0, -1.0, 2.0, -2.0, 0.5, -0.5, 4.0, -4.0];

fn safe_aff(rng: &mut Rng, out: usize, inn: usize) -> Aff {
    Aff {
        mat: (0..out).map(|_| (0..inn).map(|_| *rng.pick(&SAFE)).collect()).collect(),
        bias: (0..out).map(|_| *rng.pick(&SAFE)).collect(),
    }
}

/// replace every terminal by one whose coefficients are non-zero powers of two (divisor-safe)
fn make_divisor_safe(s: &mut Spec, rng: &mut Rng) {
    match s {
        Spec::T(a) => *a = safe_aff(rng, a.outdim(), a.indim()),
        Spec::D(_, kids) => {
            for k in kids.iter_mut().flatten() {
                make_divisor_safe(k, rng);
            }
        }
    }
}

fn apply_op(op: &str, x: f64, y: f64) -> f64 {
    match op {
        "add" => x + y,
        "sub" => x - y,
        "mul" => x * y,
        _ => x / y,
    }
}

fn expected_terminal(op: &str, a: &SNode, b: &SNode) -> (Vec<Vec<f64>>, Vec<f64>) {
    let mat = a.mat.iter().zip(b.mat.iter()).map(|(r, s)| r.iter().zip(s.iter()).map(|(x, y)| apply_op(op, *x, *y)).collect()).collect();
    let bias = a.bias.iter().zip(b.bias.iter()).map(|(x, y)| apply_op(op, *x, *y)).collect();
    (mat, bias)
}

pub fn run_pair(case: u64, rng: &mut Rng, ev: &mut Ev, prefix: &str, partial_bias: bool) {
    let rg = match rng.below(10) {
        0..=4 => Regime::Int,
        5..=7 => Regime::Dyadic,
        _ => Regime::Short,
    };
    let n = 1 + rng.below(3);
    let m = 1 + rng.below(3);
    let op = *rng.pick(&["add", "sub", "mul", "div"]);
    let mk = |rng: &mut Rng, partial: bool| -> TreeCfg {
        let mut c = TreeCfg::basic(2, n, m, rg);
        c.max_depth = rng.below(if rng.big { 6 } else { 4 });
        c.allow_leaf_root = true;
        c.p_missing = if partial { 0.3 } else { 0.0 };
        c.p_contra = if rng.chance(0.2) { 0.4 } else { 0.0 };
        c
    };
    let pa = rng.chance(if partial_bias { 0.6 } else { 0.3 });
    let pb = rng.chance(if partial_bias { 0.8 } else { 0.3 });
    let ca = mk(rng, pa);
    let cb = mk(rng, pb);
    let sa = gen::spec(rng, &ca);
    let mut sb = gen::spec(rng, &cb);
    if op == "div" {
        make_divisor_safe(&mut sb, rng);
    }
    let scr = rng.chance(0.4);
    let mut a = gen::build::<2>(&sa, rng, scr);
    let mut b = gen::build::<2>(&sb, rng, false);
    // operands with a history: cached witnesses / verdicts and index holes from an earlier elimination
    let pre_a = rng.chance(0.3);
    let pre_b = rng.chance(0.2);
    if pre_a || pre_b {
        let r = lib(case, "history: infeasible_elimination of an operand", || {
            if pre_a {
                a.infeasible_elimination();
            }
            if pre_b {
                b.infeasible_elimination();
            }
        });
        if r.is_err() {
            ev.skip("elimination panicked while preparing an operand (C04's subject)");
            return;
        }
        ev.inc("cases_with_pre_eliminated_operand");
    }
    let asn = snap(&a);
    let bsn = snap(&b);
    ev.evaluations += 1;
    let desc = json!({"op": op, "regime": rg.name(), "a": asn.to_json(), "b": bsn.to_json()});

    macro_rules! fail {
        ($sig:expr, $msg:expr) => {{
            ev.violation(case, &format!("{}:{}", prefix, $sig), "", json!({"case": desc, "problem": $msg}));
            return;
        }};
    }
    macro_rules! form {
        ($name:expr, $e:expr) => {
            match lib(case, &format!("tree {} tree ({})", op, $name), || $e) {
                Ok(t) => ($name, t),
                Err(p) => fail!(&format!("{}:panic", op), format!("{}: {}", $name, p)),
            }
        };
    }
    let forms: Vec<(&str, AffTree<2>)> = match op {
        "add" => vec![form!("&a+&b", &a + &b), form!("a+&b", a.clone() + &b), form!("a+b", a.clone() + b.clone()), form!("&a+b", &a + b.clone())],
        "sub" => vec![form!("&a-&b", &a - &b), form!("a-&b", a.clone() - &b), form!("a-b", a.clone() - b.clone()), form!("&a-b", &a - b.clone())],
        "mul" => vec![form!("&a*&b", &a * &b), form!("a*&b", a.clone() * &b), form!("a*b", a.clone() * b.clone()), form!("&a*b", &a * b.clone())],
        _ => vec![form!("&a/&b", &a / &b), form!("a/&b", a.clone() / &b), form!("a/b", a.clone() / b.clone()), form!("&a/b", &a / b.clone())],
    };
    if snap(&a) != asn || snap(&b) != bsn {
        fail!("operand-changed", "a borrowed operand was modified".to_string());
    }
    let pts = gen::probes(rng, &[&asn, &bsn], n, 50);
    let mut joint: BTreeMap<((usize, Option<usize>), (usize, Option<usize>)), Band> = BTreeMap::new();
    let mut checked_snaps: Vec<Snap> = Vec::new();
    let mut any_pruned = false;
    for (fname, res) in forms.iter() {
        let rs = snap(res);
        if checked_snaps.iter().any(|s| *s == rs) {
            ev.inc("forms_identical_to_reference_form");
            continue;
        }
        if let Err(e) = rs.wf_tree() {
            fail!(&format!("{}:malformed", op), format!("{}: {}", fname, e));
        }
        // decisions of the result are decisions of a (same index) or unchanged copies of decisions of b
        for (i, nd) in &rs.nodes {
            if nd.has_children() {
                let from_a = asn.nodes.get(i).map_or(false, |x| x.has_children() && x.same_aff(nd));
                let from_b = bsn.nodes.values().any(|x| x.has_children() && x.same_aff(nd));
                if !from_a && !from_b {
                    fail!(&format!("{}:decision-altered", op), format!("{}: decision {} of the result is neither a decision of a nor an unchanged decision of b", fname, i));
                }
            }
        }
        let full = asn.nodes.len() + asn.terminals().len() * (bsn.nodes.len() - 1);
        if rs.nodes.len() < full {
            any_pruned = true;
        }
        for x in &pts {
            let xq = qv(x);
            let ea = asn.eval(&xq);
            let eb = bsn.eval(&xq);
            let er = rs.eval(&xq);
            let enda = match &ea {
                TEv::Val(nn, _) => (*nn, None),
                TEv::Undef(nn, l) => (*nn, Some(*l)),
                TEv::Broken(_) => continue,
            };
            let endb = match &eb {
                TEv::Val(nn, _) => (*nn, None),
                TEv::Undef(nn, l) => (*nn, Some(*l)),
                TEv::Broken(_) => continue,
            };
            // S5: joint cell of the two end cells must be thick (a alone decides when a is undefined)
            let band = if enda.1.is_some() {
                Band::Thick // undefined already in a: the result keeps a's structure, no pruning involved
            } else {
                joint
                    .entry((enda, endb))
                    .or_insert_with(|| {
                        let mut sys = match cell_sys(&asn, enda) {
                            Ok(s) => s,
                            Err(_) => return Band::Thin,
                        };
                        match cell_sys(&bsn, endb) {
                            Ok(s2) => sys.extend(&s2),
                            Err(_) => return Band::Thin,
                        }
                        match crate::lpx::classify(&sys) {
                            Ok((bd, _)) => bd,
                            Err(_) => Band::Thin,
                        }
                    })
                    .clone()
            };
            if band != Band::Thick {
                ev.skip("probe input in a thin joint cell (S5)");
                continue;
            }
            match (&ea, &eb, &er) {
                (TEv::Val(na, _), TEv::Val(nb, _), TEv::Val(nr, vr)) => {
                    let (em, ebias) = expected_terminal(op, asn.node(*na), bsn.node(*nb));
                    let rn = rs.node(*nr);
                    if !(crate::snap::bits_eq_mat(&rn.mat, &em) && crate::snap::bits_eq(&rn.bias, &ebias)) {
                        fail!(
                            &format!("{}:terminal", op),
                            format!("{}: x={:?}: a reaches terminal {}, b reaches terminal {}; expected terminal {:?}+{:?} but the result reaches node {} holding {:?}+{:?}", fname, x, na, nb, em, ebias, nr, rn.mat, rn.bias)
                        );
                    }
                    // value: exact evaluation of the expected terminal
                    let exp = Aff { mat: em, bias: ebias }.apply_q(&xq);
                    if exp != *vr {
                        fail!(&format!("{}:value", op), format!("{}: x={:?}", fname, x));
                    }
                    ev.inc("defined_inputs_checked");
                }
                (_, _, TEv::Undef(..)) if !(ea.is_val() && eb.is_val()) => {
                    ev.inc("undefined_inputs_checked");
                }
                (_, _, TEv::Broken(m)) => fail!(&format!("{}:broken", op), format!("{}: x={:?}: {}", fname, x, m)),
                _ => {
                    fail!(
                        &format!("{}:definedness", op),
                        format!("{}: x={:?}: a -> {}, b -> {}, but result -> {}", fname, x, ea.brief(), eb.brief(), er.brief())
                    );
                }
            }
        }
        checked_snaps.push(rs);
    }
    let nontrivial = asn.decisions().len() >= 1 && bsn.decisions().len() >= 1;
    if nontrivial {
        let mut h = Hasher::new();
        h.s(op);
        h.u(asn.structural_hash());
        h.u(bsn.structural_hash());
        ev.nontrivial(h.fin());
        if op == "sub" || op == "div" {
            ev.inc("order_sensitive_cases");
        }
        if pa || pb {
            ev.inc("partial_operand_cases");
        }
        if any_pruned {
            ev.inc("cases_with_on_the_fly_pruning");
        }
    }
    if ev.want_sample() && nontrivial {
        ev.sample(json!({"op": op, "regime": rg.name(), "a_nodes": asn.nodes.len(), "b_nodes": bsn.nodes.len(), "b": bsn.to_json()}));
    }
}

fn cell_sys(s: &Snap, end: (usize, Option<usize>)) -> Result<crate::lpx::Sys, String> {
    let mut sys = s.path_sys(end.0)?;
    if let Some(l) = end.1 {
        let n = s.node(end.0);
        let row = qv(&n.mat[0]);
        let b = crate::q::Q::from_f64(n.bias[0]);
        if l == 1 {
            sys.push(row, b);
        } else {
            sys.push(row.iter().map(|v| v.neg()).collect(), b.neg());
        }
    }
    Ok(sys)
}

fn run_affine(case: u64, rng: &mut Rng, ev: &mut Ev) {
    let rg = if rng.chance(0.6) { Regime::Int } else { Regime::Dyadic };
    let n = 1 + rng.below(3);
    let m = 1 + rng.below(3);
    let op = *rng.pick(&["add", "sub", "mul", "div", "neg"]);
    let mut c = TreeCfg::basic(2, n, m, rg);
    c.max_depth = rng.below(4);
    c.allow_leaf_root = true;
    c.p_missing = if rng.chance(0.3) { 0.3 } else { 0.0 };
    let mut sa = gen::spec(rng, &c);
    let tree_is_divisor = op == "div" && rng.chance(0.5);
    if tree_is_divisor {
        make_divisor_safe(&mut sa, rng);
    }
    let scr = rng.chance(0.4);
    let a = gen::build::<2>(&sa, rng, scr);
    let f = if op == "div" { safe_aff(rng, m, n) } else { gen::aff(rng, m, n, rg) };
    let asn = snap(&a);
    let lf = f.to_lib();
    ev.evaluations += 1;
    let desc = json!({"op": op, "tree": asn.to_json(), "affine": f.json()});
    macro_rules! fail {
        ($sig:expr, $msg:expr) => {{
            ev.violation(case, &format!("c07:affine:{}", $sig), "", json!({"case": desc, "problem": $msg}));
            return;
        }};
    }
    macro_rules! form {
        ($name:expr, $left:expr, $e:expr) => {
            match lib(case, &format!("tree {} affine ({})", op, $name), || $e) {
                Ok(t) => ($name, $left, t),
                Err(p) => fail!(&format!("{}:panic", op), format!("{}: {}", $name, p)),
            }
        };
    }
    // (name, affine-on-the-left?, result)
    let mut forms: Vec<(&str, bool, AffTree<2>)> = Vec::new();
    match op {
        "add" => {
            forms.push(form!("a+f", false, a.clone() + lf.clone()));
            forms.push(form!("a+&f", false, a.clone() + &lf));
            forms.push(form!("f+a", true, lf.clone() + a.clone()));
            forms.push(form!("&f+a", true, &lf + a.clone()));
        }
        "sub" => {
            forms.push(form!("a-f", false, a.clone() - lf.clone()));
            forms.push(form!("a-&f", false, a.clone() - &lf));
            forms.push(form!("f-a", true, lf.clone() - a.clone()));
            forms.push(form!("&f-a", true, &lf - a.clone()));
        }
        "mul" => {
            forms.push(form!("a*f", false, a.clone() * lf.clone()));
            forms.push(form!("a*&f", false, a.clone() * &lf));
            forms.push(form!("f*a", true, lf.clone() * a.clone()));
            forms.push(form!("&f*a", true, &lf * a.clone()));
        }
        "div" => {
            if tree_is_divisor {
                forms.push(form!("f/a", true, lf.clone() / a.clone()));
                forms.push(form!("&f/a", true, &lf / a.clone()));
            } else {
                forms.push(form!("a/f", false, a.clone() / lf.clone()));
                forms.push(form!("a/&f", false, a.clone() / &lf));
            }
        }
        _ => {
            forms.push(form!("-a", false, -a.clone()));
        }
    }
    let fnode = SNode {
        mat: f.mat.clone(),
        bias: f.bias.clone(),
        parent: None,
        children: vec![None; 2],
        isleaf: true,
        state: crate::snap::SState::Indet,
    };
    for (name, left, res) in forms {
        let rs = snap(&res);
        if rs.nodes.len() != asn.nodes.len() {
            fail!(&format!("{}:size", op), format!("{}: number of nodes changed", name));
        }
        for (i, an) in &asn.nodes {
            let rn = match rs.nodes.get(i) {
                Some(x) => x,
                None => fail!(&format!("{}:index", op), format!("{}: node {} vanished", name, i)),
            };
            if rn.children != an.children || rn.parent != an.parent || rn.isleaf != an.isleaf {
                fail!(&format!("{}:structure", op), format!("{}: links of node {} changed", name, i));
            }
            if an.has_children() {
                if !rn.same_aff(an) {
                    fail!(&format!("{}:decision-altered", op), format!("{}: decision {} was altered", name, i));
                }
            } else {
                let (em, eb) = if op == "neg" {
                    (an.mat.iter().map(|r| r.iter().map(|v| -v).collect()).collect::<Vec<Vec<f64>>>(), an.bias.iter().map(|v| -v).collect::<Vec<f64>>())
                } else if left {
                    expected_terminal(op, &fnode, an)
                } else {
                    expected_terminal(op, an, &fnode)
                };
                if !(crate::snap::bits_eq_mat(&rn.mat, &em) && crate::snap::bits_eq(&rn.bias, &eb)) {
                    fail!(
                        &format!("{}:terminal", op),
                        format!("{}: terminal {} holds {:?}+{:?}, expected {:?}+{:?} (operand order matters)", name, i, rn.mat, rn.bias, em, eb)
                    );
                }
            }
        }
        ev.inc("affine_forms_checked");
        // point-wise meaning for + - neg on a few inputs (exact regime)
        if op == "add" || op == "sub" || op == "neg" {
            for x in gen::lattice(rng, n, 2, 1.0, 12) {
                let xq = qv(&x);
                let ea = asn.eval(&xq);
                let er = rs.eval(&xq);
                match (ea, er) {
                    (TEv::Val(_, va), TEv::Val(_, vr)) => {
                        let fx = f.apply_q(&xq);
                        for k in 0..va.len() {
                            let e = match (op, left) {
                                ("add", _) => va[k].add(&fx[k]),
                                ("sub", false) => va[k].sub(&fx[k]),
                                ("sub", true) => fx[k].sub(&va[k]),
                                _ => va[k].neg(),
                            };
                            if vr[k] != e {
                                fail!(&format!("{}:pointwise", op), format!("{}: x={:?} component {}", name, x, k));
                            }
                        }
                    }
                    (TEv::Undef(..), TEv::Undef(..)) => {}
                    (p, q) => fail!(&format!("{}:definedness", op), format!("{}: x={:?}: tree {} result {}", name, x, p.brief(), q.brief())),
                }
            }
        }
    }
    if asn.decisions().len() >= 1 {
        let mut h = Hasher::new();
        h.s(op);
        h.s("affine");
        h.u(asn.structural_hash());
        for v in f.bias.iter() {
            h.f(*v);
        }
        ev.nontrivial(h.fin());
        if op == "sub" || op == "div" {
            ev.inc("order_sensitive_cases");
        }
    }
}
