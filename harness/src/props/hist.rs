//! Operation histories on AffTree<2>: generator (small type model), executor, and the exact
//! step-wise functional model used by C04 / C05 / C11.

use super::common::*;
use crate::ev::Ev;
use crate::gen::{self, Aff, Regime, TreeCfg};
use crate::lpx::Band;
use crate::q::{qv, Q};
use crate::rng::Rng;
use crate::snap::{snap, Ev as TEv, Snap};
use crate::util::lib;
use affinitree::distill::schema;
use affinitree::pwl::afftree::AffTree;
use serde_json::{json, Value};
use std::collections::BTreeMap;

#[derive(Clone, Debug)]
pub enum Schema {
    Relu(usize),
    Leaky(usize, f64),
    HardTanh(usize, f64, f64),
    HardShrink(usize, f64),
    Threshold(usize, f64, f64),
    HardSigmoid(usize),
    Argmax,
    ClassChar(usize),
    InfNorm(Option<f64>, Option<f64>),
}

impl Schema {
    pub fn build(&self, dim: usize) -> AffTree<2> {
        match self {
            Schema::Relu(r) => schema::partial_ReLU(dim, *r),
            Schema::Leaky(r, a) => schema::partial_leaky_ReLU(dim, *r, *a),
            Schema::HardTanh(r, a, b) => schema::partial_hard_tanh(dim, *r, *a, *b),
            Schema::HardShrink(r, l) => schema::partial_hard_shrink(dim, *r, *l),
            Schema::Threshold(r, t, v) => schema::partial_threshold(dim, *r, *t, *v),
            Schema::HardSigmoid(r) => schema::partial_hard_sigmoid(dim, *r),
            Schema::Argmax => schema::argmax(dim),
            Schema::ClassChar(c) => schema::class_characterization(dim, *c),
            Schema::InfNorm(a, b) => schema::inf_norm(dim, *a, *b),
        }
    }
    pub fn out_dim(&self, dim: usize) -> usize {
        match self {
            Schema::Argmax | Schema::ClassChar(_) | Schema::InfNorm(..) => 1,
            _ => dim,
        }
    }
    pub fn exact(&self) -> bool {
        !matches!(self, Schema::HardSigmoid(_))
    }
}

#[derive(Clone, Debug)]
pub enum Ctor {
    New(usize),
    FromAff(Aff),
    FromPoly(Aff, Aff, Option<Aff>),
    Schema(Schema, usize),
    Spec(gen::Spec, bool),
}

#[derive(Clone, Debug)]
pub enum Op {
    ApplyFunc(Aff),
    ComposeSchema(Schema, bool),
    ComposeTree(gen::Spec, bool),
    Eliminate,
    Reduce,
    /// (tree, subtract?, ownership form 0..4)
    ArithTree(gen::Spec, bool, usize),
    /// (affine, subtract?, affine on the left?, by reference?)
    ArithAff(Aff, bool, bool, bool),
    Neg,
    /// apply_func_at_node on the k-th terminal (index order); C05 only
    ApplyAtTerminal(Aff, usize),
    /// remove_axes with the given keep-mask; only generated as the last operation; C05 only
    RemoveAxes(Vec<bool>),
}

impl Op {
    pub fn name(&self) -> String {
        match self {
            Op::ApplyFunc(a) => format!("apply_func({}x{})", a.outdim(), a.indim()),
            Op::ComposeSchema(s, p) => format!("compose::<{}>({:?})", p, s),
            Op::ComposeTree(s, p) => format!("compose::<{}>(tree with {} nodes{})", p, s.count(), if s.is_total() { "" } else { ", partial" }),
            Op::Eliminate => "infeasible_elimination".into(),
            Op::Reduce => "reduce".into(),
            Op::ArithTree(s, sub, form) => format!("tree {} tree[{} nodes{}] (form {})", if *sub { "-" } else { "+" }, s.count(), if s.is_total() { "" } else { ", partial" }, form),
            Op::ArithAff(_, sub, left, by_ref) => format!("{} {} {}{}", if *left { "affine" } else { "tree" }, if *sub { "-" } else { "+" }, if *left { "tree" } else { "affine" }, if *by_ref { " (by ref)" } else { "" }),
            Op::Neg => "neg".into(),
            Op::ApplyAtTerminal(_, k) => format!("apply_func_at_node(terminal #{})", k),
            Op::RemoveAxes(m) => format!("remove_axes({:?})", m),
        }
    }
    pub fn kind(&self) -> &'static str {
        match self {
            Op::ApplyFunc(_) => "apply_func",
            Op::ComposeSchema(_, false) | Op::ComposeTree(_, false) => "compose",
            Op::ComposeSchema(_, true) | Op::ComposeTree(_, true) => "compose_pruned",
            Op::Eliminate => "eliminate",
            Op::Reduce => "reduce",
            Op::ArithTree(..) => "arith_tree",
            Op::ArithAff(..) => "arith_affine",
            Op::Neg => "neg",
            Op::ApplyAtTerminal(..) => "apply_func_at_node",
            Op::RemoveAxes(_) => "remove_axes",
        }
    }
    pub fn is_pruning(&self) -> bool {
        matches!(self, Op::Eliminate | Op::ComposeSchema(_, true) | Op::ComposeTree(_, true) | Op::ArithTree(..))
    }
    pub fn changes_structure(&self) -> bool {
        !matches!(self, Op::ApplyFunc(_) | Op::ArithAff(..) | Op::Neg | Op::ApplyAtTerminal(..) | Op::RemoveAxes(_))
    }
}

pub struct History {
    pub ctor: Ctor,
    pub ops: Vec<Op>,
    pub in_dim: usize,
    pub exact: bool,
}

pub struct HistCfg {
    pub max_ops: usize,
    /// weight of pruning operations (elimination, pruned composition, arithmetic)
    pub prune_bias: f64,
    pub partial_bias: f64,
    pub allow_inexact: bool,
    pub max_nodes_hint: usize,
}

fn pick_schema(rng: &mut Rng, dim: usize, allow_inexact: bool) -> Schema {
    let row = rng.below(dim);
    loop {
        let s = match rng.below(12) {
            0 | 1 | 2 => Schema::Relu(row),
            3 => Schema::Leaky(row, *rng.pick(&[0.5, 0.25, 2.0, 0.0, -1.0])),
            4 => {
                let a = rng.int(-2, 1) as f64;
                Schema::HardTanh(row, a, a + rng.int(0, 3) as f64)
            }
            5 => Schema::HardShrink(row, *rng.pick(&[0.5, 1.0, 0.0])),
            6 => Schema::Threshold(row, rng.int(-2, 2) as f64, rng.int(-2, 2) as f64),
            7 => Schema::HardSigmoid(row),
            8 => Schema::Argmax,
            9 => Schema::ClassChar(rng.below(dim)),
            10 => Schema::InfNorm(if rng.chance(0.7) { Some(-1.0) } else { None }, Some(rng.int(0, 2) as f64)),
            _ => Schema::Relu(row),
        };
        if !allow_inexact && !s.exact() {
            continue;
        }
        if matches!(s, Schema::Argmax | Schema::ClassChar(_)) && dim < 2 {
            continue;
        }
        return s;
    }
}

pub fn generate(rng: &mut Rng, cfg: &HistCfg) -> History {
    let rg = if rng.chance(0.6) { Regime::Int } else { Regime::Dyadic };
    let in_dim = 1 + rng.below(if rng.big { 4 } else { 3 });
    let mut exact = true;
    // biased to output dimensions >= 2 so that a predicate posing as terminal is caught by shape
    let mut out_dim = if rng.chance(0.75) { 2 + rng.below(2) } else { 1 };
    let ctor = match rng.below(10) {
        0 => {
            out_dim = in_dim;
            Ctor::New(in_dim)
        }
        1 | 2 => Ctor::FromAff(gen::aff(rng, out_dim, in_dim, rg)),
        3 | 4 | 5 => {
            let m = 1 + rng.below(3);
            let mut p = gen::pred(rng, m, in_dim, rg);
            for b in p.bias.iter_mut() {
                *b = b.abs() + 1.0;
            }
            if rng.chance(0.2) {
                // an infeasible precondition row pair
                let r = p.mat[0].clone();
                p.mat.push(r.iter().map(|v| -v).collect());
                p.bias.push(-p.bias[0] - 2.0);
            }
            let ft = gen::aff(rng, out_dim, in_dim, rg);
            let ff = if rng.chance(0.5 - 0.4 * cfg.partial_bias) { Some(gen::aff(rng, out_dim, in_dim, rg)) } else { None };
            Ctor::FromPoly(p, ft, ff)
        }
        6 => {
            let d = in_dim.max(if rng.chance(0.5) { 2 } else { 1 });
            let s = pick_schema(rng, d, cfg.allow_inexact);
            exact &= s.exact();
            out_dim = s.out_dim(d);
            return finish(rng, cfg, Ctor::Schema(s, d), d, out_dim, rg, exact);
        }
        _ => {
            let mut c = TreeCfg::basic(2, in_dim, out_dim, rg);
            c.max_depth = 1 + rng.below(3);
            c.p_missing = if rng.chance(cfg.partial_bias) { 0.3 } else { 0.0 };
            c.p_contra = if rng.chance(0.4) { 0.4 } else { 0.0 };
            let scr = rng.chance(0.3);
            Ctor::Spec(gen::spec(rng, &c), scr)
        }
    };
    // 6 %: the constructor argument is translated so that the regions of the history lie 3e6 .. 8e6 away
    // from the origin
    let mut ctor = ctor;
    if rng.chance(0.06) {
        let d = gen::far_shift(rng, in_dim);
        match &mut ctor {
            Ctor::FromAff(a) => a.shift_function(&d),
            Ctor::FromPoly(p, ft, ff) => {
                p.shift_predicate(&d);
                ft.shift_function(&d);
                if let Some(f) = ff.as_mut() {
                    f.shift_function(&d);
                }
            }
            Ctor::Spec(s, _) => s.translate(&d),
            _ => {}
        }
    }
    finish(rng, cfg, ctor, in_dim, out_dim, rg, exact)
}

fn finish(rng: &mut Rng, cfg: &HistCfg, ctor: Ctor, in_dim: usize, mut out_dim: usize, rg: Regime, mut exact: bool) -> History {
    let n_ops = 1 + rng.below(cfg.max_ops);
    let mut ops = Vec::new();
    let mut size_est: usize = 4;
    for _ in 0..n_ops {
        let prune = rng.chance(cfg.prune_bias);
        let r = rng.below(100);
        let op = if r < 12 {
            let od = if rng.chance(0.7) { 2 + rng.below(2) } else { 1 };
            let a = gen::aff(rng, od, out_dim, rg);
            out_dim = od;
            Op::ApplyFunc(a)
        } else if r < 40 {
            let s = pick_schema(rng, out_dim, cfg.allow_inexact);
            exact &= s.exact();
            let od = s.out_dim(out_dim);
            out_dim = od;
            size_est *= 2;
            Op::ComposeSchema(s, prune)
        } else if r < 55 {
            let od = if rng.chance(0.7) { 2 + rng.below(2) } else { 1 };
            let mut c = TreeCfg::basic(2, out_dim, od, rg);
            c.max_depth = 1 + rng.below(2);
            c.p_missing = if rng.chance(cfg.partial_bias) { 0.3 } else { 0.0 };
            c.allow_leaf_root = true;
            out_dim = od;
            size_est *= 3;
            Op::ComposeTree(gen::spec(rng, &c), prune)
        } else if r < 72 {
            size_est = size_est / 2 + 2;
            Op::Eliminate
        } else if r < 80 {
            Op::Reduce
        } else if r < 90 {
            let mut c = TreeCfg::basic(2, in_dim, out_dim, rg);
            c.max_depth = rng.below(3);
            c.p_missing = if rng.chance(cfg.partial_bias) { 0.3 } else { 0.0 };
            c.allow_leaf_root = true;
            size_est *= 3;
            Op::ArithTree(gen::spec(rng, &c), rng.chance(0.5), rng.below(4))
        } else if r < 96 {
            Op::ArithAff(gen::aff(rng, out_dim, in_dim, rg), rng.chance(0.5), rng.chance(0.5), rng.chance(0.5))
        } else {
            Op::Neg
        };
        ops.push(op);
        if size_est > cfg.max_nodes_hint {
            ops.push(Op::Eliminate);
            size_est = size_est / 2 + 2;
        }
    }
    History {
        ctor,
        ops,
        in_dim,
        exact,
    }
}

pub fn construct(c: &Ctor, rng: &mut Rng) -> Result<AffTree<2>, String> {
    match c {
        Ctor::New(d) => Ok(AffTree::<2>::new(*d)),
        Ctor::FromAff(a) => Ok(AffTree::<2>::from_aff(a.to_lib())),
        Ctor::FromPoly(p, ft, ff) => {
            let fl = ff.as_ref().map(|f| f.to_lib());
            AffTree::<2>::from_poly(p.to_poly(), ft.to_lib(), fl.as_ref()).map_err(|e| format!("{}", e))
        }
        Ctor::Schema(s, d) => Ok(s.build(*d)),
        Ctor::Spec(sp, scr) => Ok(gen::build::<2>(sp, rng, *scr)),
    }
}

pub fn ctor_name(c: &Ctor) -> String {
    match c {
        Ctor::New(d) => format!("AffTree::new({})", d),
        Ctor::FromAff(a) => format!("from_aff({}x{})", a.outdim(), a.indim()),
        Ctor::FromPoly(p, _, ff) => format!("from_poly({} rows, else-branch: {})", p.mat.len(), ff.is_some()),
        Ctor::Schema(s, d) => format!("schema {:?} dim {}", s, d),
        Ctor::Spec(sp, scr) => format!("manual tree ({} nodes{}, scrambled: {})", sp.count(), if sp.is_total() { "" } else { ", partial" }, scr),
    }
}

/// What the op needs besides the tree itself (so that the exact model can use its snapshot).
pub struct Operand {
    pub tree: Option<AffTree<2>>,
    pub snap: Option<Snap>,
}

pub fn operand(op: &Op, cur_out_dim: usize, rng: &mut Rng) -> Operand {
    let mut t = match op {
        Op::ComposeSchema(s, _) => Some(s.build(cur_out_dim)),
        Op::ComposeTree(sp, _) | Op::ArithTree(sp, _, _) => Some(gen::build::<2>(sp, rng, false)),
        _ => None,
    };
    // the operand may itself carry cached feasibility states from an earlier elimination
    if let Some(tt) = t.as_mut() {
        if rng.chance(0.3) {
            let _ = std::panic::catch_unwind(std::panic::AssertUnwindSafe(|| {
                tt.infeasible_elimination();
            }));
        }
    }
    let s = t.as_ref().map(snap);
    Operand { tree: t, snap: s }
}

/// Execute one operation on the tree (consumes and returns it because the operators move).
pub fn apply(op: &Op, t: AffTree<2>, operand: &Operand, case: u64, step: usize) -> Result<AffTree<2>, String> {
    let what = format!("step {} {}", step, op.name());
    lib(case, &what, move || {
        let mut t = t;
        match op {
            Op::ApplyFunc(a) => {
                t.apply_func(&a.to_lib());
                t
            }
            Op::ComposeSchema(_, p) | Op::ComposeTree(_, p) => {
                let g = operand.tree.as_ref().unwrap();
                // the VERBOSE const parameter (progress bar only) is switched on for one step in seven
                let verbose = (case as usize + step) % 7 == 0;
                match (*p, verbose) {
                    (true, false) => t.compose::<true, false>(g),
                    (false, false) => t.compose::<false, false>(g),
                    (true, true) => t.compose::<true, true>(g),
                    (false, true) => t.compose::<false, true>(g),
                }
                t
            }
            Op::Eliminate => {
                t.infeasible_elimination();
                t
            }
            Op::Reduce => {
                t.reduce();
                t
            }
            Op::ArithTree(_, sub, form) => {
                let b = operand.tree.as_ref().unwrap();
                match (*sub, *form) {
                    (false, 0) => &t + b,
                    (false, 1) => t + b,
                    (false, 2) => t + b.clone(),
                    (false, _) => &t + b.clone(),
                    (true, 0) => &t - b,
                    (true, 1) => t - b,
                    (true, 2) => t - b.clone(),
                    (true, _) => &t - b.clone(),
                }
            }
            Op::ArithAff(a, sub, left, by_ref) => {
                let f = a.to_lib();
                match (*sub, *left, *by_ref) {
                    (false, false, false) => t + f,
                    (false, false, true) => t + &f,
                    (false, true, false) => f + t,
                    (false, true, true) => &f + t,
                    (true, false, false) => t - f,
                    (true, false, true) => t - &f,
                    (true, true, false) => f - t,
                    (true, true, true) => &f - t,
                }
            }
            Op::Neg => -t,
            Op::ApplyAtTerminal(a, k) => {
                let terms: Vec<usize> = t.tree.terminal_indices().collect();
                let idx = terms[*k % terms.len()];
                t.apply_func_at_node(idx, &a.to_lib());
                t
            }
            Op::RemoveAxes(mask) => {
                t.remove_axes(&ndarray::Array1::from(mask.clone())).unwrap();
                t
            }
        }
    })
}

/// Expected result at input x after `op`, from the exact walk of the previous snapshot.
pub fn expected(op: &Op, prev: &Snap, operand: &Operand, x: &[Q]) -> Option<Option<Vec<Q>>> {
    let pv = match prev.eval(x) {
        TEv::Val(_, v) => Some(v),
        TEv::Undef(..) => None,
        TEv::Broken(_) => return None,
    };
    Some(match op {
        Op::ApplyFunc(a) => pv.map(|v| a.apply_q(&v)),
        Op::ComposeSchema(..) | Op::ComposeTree(..) => match pv {
            None => None,
            Some(v) => match operand.snap.as_ref().unwrap().eval(&v) {
                TEv::Val(_, w) => Some(w),
                TEv::Undef(..) => None,
                TEv::Broken(_) => return None,
            },
        },
        Op::Eliminate | Op::Reduce => pv,
        Op::ArithTree(_, sub, _) => {
            let bv = match operand.snap.as_ref().unwrap().eval(x) {
                TEv::Val(_, w) => Some(w),
                TEv::Undef(..) => None,
                TEv::Broken(_) => return None,
            };
            match (pv, bv) {
                (Some(a), Some(b)) => Some(a.iter().zip(b.iter()).map(|(p, q)| if *sub { p.sub(q) } else { p.add(q) }).collect()),
                _ => None,
            }
        }
        Op::ArithAff(a, sub, left, _) => pv.map(|v| {
            let f = a.apply_q(x);
            v.iter()
                .zip(f.iter())
                .map(|(p, q)| match (*sub, *left) {
                    (false, _) => p.add(q),
                    (true, false) => p.sub(q),
                    (true, true) => q.sub(p),
                })
                .collect()
        }),
        Op::Neg => pv.map(|v| v.iter().map(|p| p.neg()).collect()),
        // one terminal changed / the input space changed: no point-wise model here
        Op::ApplyAtTerminal(..) | Op::RemoveAxes(_) => return None,
    })
}

/// Compare the new snapshot with the exact model on probe inputs whose end cell in the NEW tree is
/// thick (so that neither verdict of the LP on thin regions can matter).
pub fn check_step(op: &Op, prev: &Snap, new: &Snap, operand: &Operand, pts: &[Vec<f64>], ev: &mut Ev) -> Result<(), String> {
    let mut bands: BTreeMap<(usize, Option<usize>), Band> = BTreeMap::new();
    for x in pts {
        let xq = qv(x);
        let got = new.eval(&xq);
        let end = match &got {
            TEv::Val(n, _) => (*n, None),
            TEv::Undef(n, l) => (*n, Some(*l)),
            TEv::Broken(m) => return Err(format!("x={:?}: result tree is broken: {}", x, m)),
        };
        let band = bands
            .entry(end)
            .or_insert_with(|| {
                let mut sys = match new.path_sys(end.0) {
                    Ok(s) => s,
                    Err(_) => return Band::Thin,
                };
                if let Some(l) = end.1 {
                    let n = new.node(end.0);
                    let row = qv(&n.mat[0]);
                    let b = Q::from_f64(n.bias[0]);
                    if l == 1 {
                        sys.push(row, b);
                    } else {
                        sys.push(row.iter().map(|v| v.neg()).collect(), b.neg());
                    }
                }
                match crate::lpx::classify(&sys) {
                    Ok((b, _)) => b,
                    Err(_) => Band::Thin,
                }
            })
            .clone();
        if band != Band::Thick {
            ev.skip("probe input ends in a thin cell of the result");
            continue;
        }
        let exp = match expected(op, prev, operand, &xq) {
            Some(e) => e,
            None => continue,
        };
        let ok = match (&exp, &got) {
            (None, TEv::Undef(..)) => true,
            (Some(e), TEv::Val(node, g)) => {
                if e == g {
                    true
                } else if e.len() != g.len() {
                    false
                } else {
                    // Exact equality is what the exact regime promises while every intermediate value is
                    // representable. Far from the origin (translated histories, |x| >= 2^18) or with large row
                    // activity (>= 2^36) the library's f64 products round; there the comparison is relative to
                    // the activity of the terminal row (1e-10: thirty operations of rounding stay far below,
                    // a wrong piece or coefficient is far above).
                    let nd = new.node(*node);
                    (0..g.len()).all(|i| {
                        let act: f64 = nd.mat.get(i).map_or(0.0, |r| r.iter().zip(x.iter()).map(|(a, v)| (a * v).abs()).sum::<f64>()) + nd.bias.get(i).map_or(0.0, |b| b.abs());
                        let far = x.iter().any(|v| v.abs() >= 262144.0) || act >= 68719476736.0;
                        far && (e[i].sub(&g[i])).to_f64().abs() <= 1e-10 * (1.0 + act)
                    })
                }
            }
            _ => false,
        };
        if !ok {
            return Err(format!(
                "x={:?}: after {} the tree gives {} but the exact model gives {:?}",
                x,
                op.name(),
                got.brief(),
                exp.map(|v| v.iter().map(|q| q.to_f64()).collect::<Vec<_>>())
            ));
        }
        ev.inc("step_inputs_asserted");
    }
    Ok(())
}

pub fn history_json(h: &History) -> Value {
    json!({"constructor": ctor_name(&h.ctor), "ops": h.ops.iter().map(|o| o.name()).collect::<Vec<_>>(), "in_dim": h.in_dim})
}

/// expected output dimension after an op given the current one
pub fn out_dim_after(op: &Op, cur: usize) -> usize {
    match op {
        Op::ApplyFunc(a) => a.outdim(),
        Op::ComposeSchema(s, _) => s.out_dim(cur),
        Op::ComposeTree(sp, _) => spec_out_dim(sp).unwrap_or(cur),
        _ => cur,
    }
}

pub fn spec_out_dim(s: &gen::Spec) -> Option<usize> {
    match s {
        gen::Spec::T(a) => Some(a.outdim()),
        gen::Spec::D(_, kids) => kids.iter().flatten().filter_map(|k| spec_out_dim(k)).next(),
    }
}

pub fn ctor_out_dim(c: &Ctor) -> usize {
    match c {
        Ctor::New(d) => *d,
        Ctor::FromAff(a) => a.outdim(),
        Ctor::FromPoly(_, ft, _) => ft.outdim(),
        Ctor::Schema(s, d) => s.out_dim(*d),
        Ctor::Spec(sp, _) => spec_out_dim(sp).unwrap_or(1),
    }
}
