//! C06 — infeasible-path elimination is effective and idempotent.
//!
//! Oracle: exact emptiness classification of every surviving path, single-child scan, structural
//! diff of a second run, exact activation-region counts for distilled networks.

use super::common::*;
use super::refnet::{self, L};
use crate::ev::{Ev, Hasher};
use crate::gen::{self, Regime, TreeCfg};
use crate::lpx::{self, Band};
use crate::rng::Rng;
use crate::snap::{snap, Snap};
use crate::util::lib;
use crate::Ctx;
use affinitree::distill::builder::afftree_from_layers;
use affinitree::distill::schema;
use affinitree::pwl::afftree::AffTree;
use serde_json::json;

pub fn run_case(ctx: &Ctx, case: u64, ev: &mut Ev) {
    // armed without faults: lets the monitor see whether the LP backend itself reported an error
    let _hook = crate::util::HookGuard::new();
    let mut rng = Rng::derive(ctx.seed, "C06", case);
    rng.big = crate::draw_big(ctx, &mut rng);
    if rng.chance(0.65) {
        run_tree(case, &mut rng, ev);
    } else {
        run_net(case, &mut rng, ev);
    }
}

fn structure_eq(a: &Snap, b: &Snap) -> Option<String> {
    if a.nodes.len() != b.nodes.len() {
        return Some(format!("{} nodes vs {}", a.nodes.len(), b.nodes.len()));
    }
    for (i, an) in &a.nodes {
        match b.nodes.get(i) {
            None => return Some(format!("node {} vanished", i)),
            Some(bn) => {
                if !an.same_aff(bn) || an.children != bn.children || an.parent != bn.parent || an.isleaf != bn.isleaf {
                    return Some(format!("node {} differs", i));
                }
            }
        }
    }
    None
}

/// total binary tree with infeasible paths: random total tree with contradictions, or an
/// unpruned composition pipeline of schema trees / affine maps, optionally with cached states
fn total_tree(rng: &mut Rng, case: u64, ev: &mut Ev) -> Option<(AffTree<2>, Vec<String>)> {
    let rg = match rng.below(10) {
        0..=4 => Regime::Int,
        5..=7 => Regime::Dyadic,
        _ => Regime::Short,
    };
    let n = 1 + rng.below(3);
    let mut hist = Vec::new();
    let mut out_dim = 1 + rng.below(3);
    // 6 %: the whole construction is translated so that its regions lie 3e6 .. 8e6 away from the origin
    let far = if rng.chance(0.06) { Some(gen::far_shift(rng, n)) } else { None };
    if let Some(d) = &far {
        hist.push(format!("translated by {:?}", d));
        ev.inc("trees_translated_far_from_the_origin");
    }
    let mut t: AffTree<2> = if rng.chance(0.5) {
        let mut cfg = TreeCfg::basic(2, n, out_dim, rg);
        cfg.max_depth = 1 + rng.below(if rng.big { 6 } else { 4 });
        cfg.p_contra = 0.5;
        cfg.p_stop = 0.15;
        let mut sp = gen::spec(rng, &cfg);
        hist.push(format!("random total tree depth<={} with planted contradictions ({})", cfg.max_depth, rg.name()));
        if let Some(d) = &far {
            sp.translate(d);
        }
        let scr = rng.chance(0.4);
        gen::build::<2>(&sp, rng, scr)
    } else {
        let mut a = gen::aff(rng, out_dim, n, rg);
        hist.push(format!("from_aff ({})", rg.name()));
        if let Some(d) = &far {
            a.shift_function(d);
        }
        AffTree::<2>::from_aff(a.to_lib())
    };
    let steps = 1 + rng.below(if rng.big { 6 } else { 4 });
    for _ in 0..steps {
        if t.len() > 300 {
            break;
        }
        let r = rng.below(10);
        let res = if r < 6 {
            let row = rng.below(out_dim);
            let g = match rng.below(5) {
                0 | 1 => schema::partial_ReLU(out_dim, row),
                2 => schema::partial_leaky_ReLU(out_dim, row, 0.25),
                3 => schema::partial_hard_tanh(out_dim, row, -1.0, 1.0),
                _ => schema::partial_hard_shrink(out_dim, row, 1.0),
            };
            let mut g = g;
            if rng.chance(0.35) {
                // the argument was itself pruned before: its nodes carry cached feasible states
                g.infeasible_elimination();
                hist.push("compose::<false>(schema tree that went through infeasible_elimination)".into());
            } else {
                hist.push("compose::<false>(schema)".into());
            }
            lib(case, "compose (history)", || t.compose::<false, false>(&g))
        } else if r < 8 {
            let od = 1 + rng.below(3);
            let a = gen::aff(rng, od, out_dim, rg);
            out_dim = od;
            hist.push("apply_func".into());
            lib(case, "apply_func (history)", || t.apply_func(&a.to_lib()))
        } else {
            hist.push("infeasible_elimination (earlier run: cached states)".into());
            lib(case, "infeasible_elimination (history)", || {
                t.infeasible_elimination();
            })
        };
        if res.is_err() {
            ev.skip("history step panicked (C04's subject)");
            return None;
        }
    }
    Some((t, hist))
}

fn run_tree(case: u64, rng: &mut Rng, ev: &mut Ev) {
    let (t, hist) = match total_tree(rng, case, ev) {
        Some(x) => x,
        None => return,
    };
    let before = snap(&t);
    if before.nodes.values().any(|n| n.has_children() && n.n_children() != 2) {
        ev.skip("generated tree is not total");
        return;
    }
    ev.evaluations += 1;
    let desc = json!({"history": hist, "before": before.to_json()});
    macro_rules! fail {
        ($sig:expr, $msg:expr) => {{
            ev.violation(case, $sig, "", json!({"case": desc, "problem": $msg}));
            return;
        }};
    }
    let mut e1 = t.clone();
    let c1 = match lib(case, "infeasible_elimination", || e1.infeasible_elimination()) {
        Ok(c) => c,
        Err(p) => fail!("c06:panic", p),
    };
    let s1 = snap(&e1);
    if let Err(e) = s1.wf_tree() {
        fail!("c06:malformed", e);
    }
    // Degraded mode: the backend reported an error, or the library itself discarded an LP answer because
    // the returned point failed its own 1e-8 containment test (PerformanceCounter.lps_error; happens for
    // regions 1e7 and more away from the origin). That is C11's territory - "the only permitted effect is
    // less pruning" - so effectiveness and idempotence are not asserted for such a run; the function
    // comparison below still is.
    let mut degraded = affinitree::verif::real_errors() > 0 || c1.lps_error > 0;
    // effective: no surviving non-root node whose path is empty by more than the tolerance
    let mut cached_before = 0;
    for (i, _) in &s1.nodes {
        if *i == s1.root || degraded {
            continue;
        }
        let sys = match s1.path_sys(*i) {
            Ok(s) => s,
            Err(e) => fail!("c06:path", e),
        };
        match lpx::classify(&sys) {
            Ok((Band::Empty, c)) => fail!("c06:infeasible-node-survived", format!("node {} survives although its path region is empty by a margin (uniform slack {})", i, c.t.to_f64())),
            Ok((Band::Thin, _)) => ev.inc("surviving_thin_nodes"),
            Ok((Band::Thick, _)) => ev.inc("surviving_thick_nodes"),
            Err(_) => ev.skip("oracle-error"),
        }
        if before.nodes.get(i).map_or(false, |n| n.state != crate::snap::SState::Indet) {
            cached_before += 1;
        }
    }
    // no single-child decision below the root
    for (i, n) in &s1.nodes {
        if !degraded && *i != s1.root && n.has_children() && n.n_children() == 1 {
            // on a total tree the other branch was removed as infeasible; unless the decision's own
            // region is thin (both branches may then be judged infeasible and one is kept so that the
            // node stays a decision) it must have been replaced by its remaining branch
            let thick = matches!(s1.path_sys(*i).map(|sys| lpx::classify(&sys)), Ok(Ok((Band::Thick, _))));
            if thick {
                fail!("c06:single-branch-decision", format!("decision {} below the root is left with a single branch (should have been replaced by it)", i));
            } else {
                ev.inc("single_branch_decisions_with_thin_region");
            }
        }
    }
    // idempotent: a second run changes nothing
    let mut e2 = e1.clone();
    let c2 = match lib(case, "infeasible_elimination (second run)", || e2.infeasible_elimination()) {
        Ok(c) => c,
        Err(p) => fail!("c06:second-run:panic", p),
    };
    let s2 = snap(&e2);
    degraded |= affinitree::verif::real_errors() > 0 || c2.lps_error > 0;
    if degraded {
        ev.inc("runs_in_degraded_mode_lp_answer_discarded_or_backend_error");
    } else {
        if let Some(d) = structure_eq(&s1, &s2) {
            fail!("c06:not-idempotent", format!("second run changed the tree: {}", d));
        }
        if c2.lps_infeasible != 0 {
            fail!("c06:second-run-found-infeasible", format!("second run still found {} infeasible paths", c2.lps_infeasible));
        }
    }
    // the function is preserved as well (C03's oracle, cheap version)
    let pts = gen::probes(rng, &[&before], before.in_dim, 20);
    if let Err((sig, msg)) = compare_pruned(&before, &s1, &pts, ev) {
        fail!(&format!("c06:function:{}", sig), msg);
    }
    let removed = before.nodes.len() - s1.nodes.len();
    ev.count("nodes_removed_first_run", removed as u64);
    ev.count("lps_first_run", c1.lps_solved as u64);
    ev.count("lps_second_run", c2.lps_solved as u64);
    ev.count("cached_states_reused_second_run", c2.cached_state as u64);
    if cached_before > 0 {
        ev.inc("cases_with_states_cached_by_earlier_operations");
    }
    if removed > 0 {
        let mut h = Hasher::new();
        h.u(before.structural_hash());
        ev.nontrivial(h.fin());
    }
    if ev.want_sample() && removed > 0 {
        ev.sample(json!({"history": hist, "nodes_before": before.nodes.len(), "nodes_after": s1.nodes.len(), "lps_first_run": c1.lps_solved, "lps_second_run": c2.lps_solved}));
    }
}

fn run_net(case: u64, rng: &mut Rng, ev: &mut Ev) {
    let rg = match rng.below(10) {
        0..=5 => Regime::Int,
        6..=8 => Regime::Dyadic,
        _ => Regime::Short,
    };
    let n = 1 + rng.below(3);
    let mut layers: Vec<L> = Vec::new();
    let mut dim = n;
    let mut neurons = 0;
    let nl = 1 + rng.below(3);
    for _ in 0..nl {
        let w = 1 + rng.below(if rng.big { 4 } else { 3 });
        if neurons + w > if rng.big { 9 } else { 7 } {
            break;
        }
        layers.push(L::Linear(gen::aff(rng, w, dim, rg)));
        dim = w;
        let kind = rng.below(10);
        for i in 0..w {
            layers.push(match kind {
                0..=5 => L::Relu(i),
                6..=7 => L::Leaky(i, 0.5),
                _ => L::HardTanh(i),
            });
            neurons += 1;
        }
    }
    if neurons == 0 {
        return;
    }
    ev.evaluations += 1;
    let desc = json!({"regime": rg.name(), "in_dim": n, "layers": refnet::layers_json(&layers)});
    let liblayers = refnet::to_lib(&layers);
    let tree = match lib(case, "afftree_from_layers", || afftree_from_layers(n, &liblayers, None)) {
        Ok(t) => t,
        Err(p) => {
            ev.violation(case, "c06:distill:panic", "", json!({"case": desc, "panic": p}));
            return;
        }
    };
    if affinitree::verif::real_errors() > 0 {
        ev.skip("the LP backend itself reported an error during the run: less pruning is the permitted effect (C11)");
        return;
    }
    let cells = match refnet::cells(&layers, n, None, 3000) {
        Some(c) => c,
        None => {
            ev.skip("too many activation patterns");
            return;
        }
    };
    let mut thick = 0usize;
    let mut maybe = 0usize;
    for c in &cells {
        match lpx::classify(c) {
            Ok((Band::Thick, _)) => {
                thick += 1;
                maybe += 1;
            }
            Ok((Band::Thin, _)) => maybe += 1,
            Ok((Band::Empty, _)) => {}
            Err(_) => {
                ev.skip("oracle-error");
                return;
            }
        }
    }
    let terms = tree.num_terminals();
    ev.count("activation_patterns_classified", cells.len() as u64);
    if terms < thick || terms > maybe {
        ev.violation(
            case,
            if terms < thick { "c06:net:too-few-terminals" } else { "c06:net:too-many-terminals" },
            "",
            json!({"case": desc, "terminals": terms, "full_dimensional_activation_regions": thick, "non_empty_closed_activation_regions": maybe, "tree": snap(&tree).to_json()}),
        );
        return;
    }
    ev.inc("distilled_nets_counted");
    if thick < cells.len() {
        let mut h = Hasher::new();
        h.s(&desc.to_string());
        ev.nontrivial(h.fin());
    }
    if ev.want_sample() {
        ev.sample(json!({"net": desc, "terminals": terms, "thick_regions": thick, "nonempty_regions": maybe, "patterns": cells.len()}));
    }
}
