//! C19 — text and DOT renderings are faithful to the objects they show.
//!
//! Oracle: a small parser of the grammar the formatting module emits; every shown
//! (coefficient, variable index) pair, bias, truth symbol, node and edge statement is compared
//! with the stored object.

use crate::ev::{Ev, Hasher};
use crate::gen::{self, Aff, Regime};
use crate::rng::Rng;
use crate::snap::{snap, Snap};
use crate::util::lib;
use crate::Ctx;
use affinitree::linalg::impl_affineformat::FormatOptions;
use affinitree::pwl::dot::Dot;
use serde_json::json;
use std::ops::Bound;

const MINUS: char = '−';
const ELL: &str = "⋯";
const VELL: &str = "⋮";
const LEQ: &str = "≤";

#[derive(Debug, Clone)]
struct Shown {
    terms: Vec<(f64, bool, usize)>, // (abs value as printed, negative sign, idx)
    ellipsis: bool,
    bias: Option<(f64, bool)>,
    truth: Option<bool>,
}

fn parse_float(tok: &str) -> Option<(f64, bool)> {
    let mut ch = tok.chars();
    let neg = match ch.next()? {
        '+' => false,
        c if c == MINUS => true,
        _ => return None,
    };
    let rest: String = ch.collect();
    if rest == "inf" {
        // a normalised value beyond f64::MAX (e.g. bias 3e12 over a row of 1e-300 entries)
        return Some((f64::INFINITY, neg));
    }
    if rest.is_empty() || !rest.chars().all(|c| c.is_ascii_digit() || c == '.') {
        return None;
    }
    rest.parse::<f64>().ok().map(|v| (v, neg))
}

fn parse_lincomb(toks: &[&str]) -> Result<(Vec<(f64, bool, usize)>, bool), String> {
    let mut terms = Vec::new();
    let mut ell = false;
    let mut i = 0;
    while i < toks.len() {
        if toks[i] == ELL {
            ell = true;
            i += 1;
            continue;
        }
        let (v, neg) = parse_float(toks[i]).ok_or(format!("unparseable token '{}'", toks[i]))?;
        let idx_tok = toks.get(i + 1).ok_or(format!("coefficient '{}' without variable", toks[i]))?;
        let idx = idx_tok
            .strip_prefix('$')
            .and_then(|s| s.parse::<usize>().ok())
            .ok_or(format!("expected variable after '{}', got '{}'", toks[i], idx_tok))?;
        terms.push((v, neg, idx));
        i += 2;
    }
    Ok((terms, ell))
}

fn parse_func_row(line: &str) -> Result<Shown, String> {
    let toks: Vec<&str> = line.split_whitespace().collect();
    if toks.is_empty() {
        return Err("empty row".into());
    }
    let bias = parse_float(toks[0]).ok_or(format!("row does not start with a bias: '{}'", line))?;
    let (terms, ellipsis) = parse_lincomb(&toks[1..])?;
    Ok(Shown {
        terms,
        ellipsis,
        bias: Some(bias),
        truth: None,
    })
}

fn parse_poly_row(line: &str) -> Result<Shown, String> {
    let t = line.trim();
    if t == "⊤" || t == "⊥" {
        return Ok(Shown {
            terms: vec![],
            ellipsis: false,
            bias: None,
            truth: Some(t == "⊤"),
        });
    }
    let toks: Vec<&str> = line.split_whitespace().collect();
    let pos = toks.iter().position(|t| *t == LEQ).ok_or(format!("no inequality sign in '{}'", line))?;
    if toks.len() != pos + 2 {
        return Err(format!("expected exactly one bias after the inequality sign in '{}'", line));
    }
    let bias = parse_float(toks[pos + 1]).ok_or(format!("bad bias in '{}'", line))?;
    let (terms, ellipsis) = parse_lincomb(&toks[..pos])?;
    Ok(Shown {
        terms,
        ellipsis,
        bias: Some(bias),
        truth: None,
    })
}

fn val_ok(shown: f64, neg: bool, stored: f64, prec: usize) -> bool {
    let half = 0.5 * 10f64.powi(-(prec as i32));
    let tol = half * (1.0 + 1e-9) + 1e-12 * stored.abs();
    if shown.is_infinite() {
        return stored.is_infinite() && neg == (stored < 0.0);
    }
    if (shown - stored.abs()).abs() > tol {
        return false;
    }
    // sign must be right unless the value is printed as zero
    if shown != 0.0 && neg != (stored < 0.0) {
        return false;
    }
    if shown == 0.0 && stored.abs() > half * (1.0 + 1e-9) {
        return false;
    }
    true
}

/// Is the shown row a faithful rendering of (row, bias)? `poly`: inequality flavour.
fn faithful(sh: &Shown, row: &[f64], bias: f64, prec: usize, poly: bool, normalized: bool, simplify_zero: bool, simplify_taut: bool) -> Result<(), String> {
    let all_zero = row.iter().all(|v| *v == 0.0);
    if let Some(t) = sh.truth {
        if !poly || !simplify_taut {
            return Err("truth symbol printed although tautology simplification is off".into());
        }
        if !all_zero {
            return Err("truth symbol printed for a row with non-zero coefficients".into());
        }
        if t != (bias >= 0.0) {
            return Err(format!("truth symbol {} for 0 <= {}", if t { "⊤" } else { "⊥" }, bias));
        }
        return Ok(());
    }
    // candidate scalings
    let mut scales = vec![1.0];
    if poly && normalized && !all_zero {
        let mx = row.iter().fold(0f64, |a, b| a.max(b.abs()));
        let l2 = row.iter().map(|v| v * v).sum::<f64>().sqrt();
        let l1 = row.iter().map(|v| v.abs()).sum::<f64>();
        scales = vec![1.0 / mx, 1.0 / l2, 1.0 / l1];
    }
    let mut seen = std::collections::BTreeSet::new();
    for (_, _, idx) in &sh.terms {
        if *idx >= row.len() {
            return Err(format!("variable ${} does not exist (row has {} coefficients)", idx, row.len()));
        }
        if !seen.insert(*idx) {
            return Err(format!("variable ${} printed twice", idx));
        }
    }
    if sh.terms.len() < row.len() && !sh.ellipsis {
        let allowed = !poly && simplify_zero && all_zero && sh.terms.is_empty();
        if !allowed {
            return Err(format!("{} of {} coefficients shown but no ellipsis", sh.terms.len(), row.len()));
        }
    }
    let mut last_err = String::new();
    for s in scales {
        let mut ok = true;
        for (v, neg, idx) in &sh.terms {
            if !val_ok(*v, *neg, row[*idx] * s, prec) {
                ok = false;
                last_err = format!("coefficient shown next to ${} is {}{} but the stored value is {} (scale {})", idx, if *neg { "-" } else { "+" }, v, row[*idx], s);
                break;
            }
        }
        if ok {
            match sh.bias {
                Some((v, neg)) => {
                    if !val_ok(v, neg, bias * s, prec) {
                        ok = false;
                        last_err = format!("bias shown as {}{} but the stored value is {} (scale {})", if neg { "-" } else { "+" }, v, bias, s);
                    }
                }
                None => {
                    ok = false;
                    last_err = "no bias shown".into();
                }
            }
        }
        if ok {
            return Ok(());
        }
    }
    Err(last_err)
}

/// Check a multi-row rendering (func or poly flavour) against the stored object.
fn check_block(text: &str, a: &Aff, prec: usize, poly: bool, normalized: bool, simplify_zero: bool, simplify_taut: bool) -> Result<usize, String> {
    let mut lines: Vec<&str> = text.split('\n').collect();
    while lines.last().map_or(false, |l| l.trim().is_empty()) {
        lines.pop();
    }
    let mut vell = false;
    let mut shown: Vec<Shown> = Vec::new();
    for l in lines {
        if l.trim() == VELL {
            vell = true;
            continue;
        }
        shown.push(if poly { parse_poly_row(l)? } else { parse_func_row(l)? });
    }
    // order-preserving assignment of displayed rows to stored rows (greedy)
    let mut j = 0;
    for (k, sh) in shown.iter().enumerate() {
        let mut matched = false;
        let mut err = String::new();
        while j < a.mat.len() {
            match faithful(sh, &a.mat[j], a.bias[j], prec, poly, normalized, simplify_zero, simplify_taut) {
                Ok(()) => {
                    matched = true;
                    j += 1;
                    break;
                }
                Err(e) => {
                    if err.is_empty() {
                        err = format!("vs stored row {}: {}", j, e);
                    }
                    j += 1;
                }
            }
        }
        if !matched {
            return Err(format!("displayed row {} does not render any remaining stored row ({})", k, err));
        }
    }
    if shown.len() < a.mat.len() && !vell {
        return Err(format!("{} of {} rows displayed but no vertical ellipsis", shown.len(), a.mat.len()));
    }
    Ok(shown.len())
}

fn range(rng: &mut Rng, n: usize) -> (Bound<i32>, Bound<i32>) {
    let n = n as i32;
    match rng.below(6) {
        0 | 1 => (Bound::Included(1), Bound::Excluded(0)), // empty
        2 => {
            let a = rng.int(0, (n - 1).max(0) as i64) as i32;
            let b = rng.int(a as i64, n as i64) as i32;
            (Bound::Included(a), Bound::Excluded(b))
        }
        3 => (Bound::Unbounded, Bound::Excluded(rng.int(0, n as i64) as i32)), // prefix
        4 => (Bound::Included(rng.int(0, n as i64) as i32), Bound::Unbounded), // suffix
        _ => (Bound::Unbounded, Bound::Unbounded),
    }
}

fn weird_coef(rng: &mut Rng) -> f64 {
    match rng.below(12) {
        0 => 0.0,
        1 => -0.0,
        2 => 1e12 * rng.int(-9, 9) as f64,
        3 => 1e-12 * rng.int(-9, 9) as f64,
        4 => 0.005 * rng.int(-3, 3) as f64,
        5 => *rng.pick(&[2.0, -2.0, 0.5, -0.5]), // ties in magnitude
        6 => 0.125 * rng.int(-40, 40) as f64,
        _ => (rng.gauss() * 10.0 * 1000.0).round() / 1000.0,
    }
}

pub fn run_case(ctx: &Ctx, case: u64, ev: &mut Ev) {
    let mut rng = Rng::derive(ctx.seed, "C19", case);
    rng.big = crate::draw_big(ctx, &mut rng);
    if rng.chance(0.7) {
        run_matrix(case, &mut rng, ev);
    } else {
        run_tree(case, &mut rng, ev);
    }
}

fn run_matrix(case: u64, rng: &mut Rng, ev: &mut Ev) {
    let m = 1 + rng.below(if rng.big { 14 } else { 8 });
    let wide = rng.chance(0.3);
    let n = 1 + rng.below(if rng.big { 60 } else if wide { 30 } else { 8 });
    let mut a = Aff {
        mat: (0..m).map(|_| (0..n).map(|_| weird_coef(rng)).collect()).collect(),
        bias: (0..m).map(|_| weird_coef(rng)).collect(),
    };
    if rng.chance(0.3) {
        let i = rng.below(m);
        for v in a.mat[i].iter_mut() {
            *v = if rng.chance(0.5) { 0.0 } else { -0.0 };
        }
    }
    if rng.chance(0.12) {
        // a row of tiny but non-zero coefficients (below f64::EPSILON): not a zero row
        let i = rng.below(m);
        let unit = *rng.pick(&[2f64.powi(-60), 1e-17, 2f64.powi(-80), 1e-300]);
        for v in a.mat[i].iter_mut() {
            let k = rng.int(1, 9) as f64;
            *v = if rng.chance(0.5) { k * unit } else { -k * unit };
        }
        if rng.chance(0.5) {
            a.bias[i] = *rng.pick(&[-1.0, 1.0, 0.0, -0.0]);
        }
    }
    let opts = FormatOptions {
        sort_coefficients: *rng.pick(&[0usize, 0, 1, 5, n, n + 1]),
        simplify_zero: rng.chance(0.5),
        simplify_tautologies: rng.chance(0.5),
        normalize: rng.chance(0.5),
        skip_axes_n: 0,
        skip_axes: range(rng, n),
        skip_rows_n: 0,
        skip_rows: range(rng, m),
    };
    let prec = if rng.chance(0.1) { 20 } else { rng.below(7) };
    let poly = rng.chance(0.5);
    let desc = json!({"object": a.json(), "as": if poly { "polytope" } else { "function" }, "options": format!("{:?}", opts), "precision": prec});
    ev.evaluations += 1;
    let text = match lib(case, "display_with", || {
        if poly {
            format!("{:.*}", prec, a.to_poly().display_with(opts.clone()))
        } else {
            format!("{:.*}", prec, a.to_lib().display_with(opts.clone()))
        }
    }) {
        Ok(t) => t,
        Err(p) => {
            ev.violation(case, "c19:display:panic", "", json!({"case": desc, "panic": p}));
            return;
        }
    };
    match check_block(&text, &a, prec, poly, opts.normalize, opts.simplify_zero, opts.simplify_tautologies) {
        Ok(rows_shown) => {
            ev.count("rows_parsed", rows_shown as u64);
        }
        Err(e) => {
            ev.violation(case, if poly { "c19:polytope-text" } else { "c19:function-text" }, "", json!({"case": desc, "output": text, "problem": e}));
            return;
        }
    }
    let sorting = opts.sort_coefficients != 0 && opts.sort_coefficients <= n;
    let skipping = text.contains(ELL) || text.contains(VELL);
    if sorting {
        ev.inc("renderings_with_sorting");
    }
    if skipping {
        ev.inc("renderings_with_ellipsis");
    }
    if sorting || skipping {
        let mut h = Hasher::new();
        h.s(&desc.to_string());
        ev.nontrivial(h.fin());
    }
    if ev.want_sample() {
        ev.sample(json!({"case": desc, "output": text}));
    }
}

fn node_block_ok(s: &Snap, idx: usize, text: &str) -> Result<(), String> {
    let n = s.node(idx);
    let a = Aff {
        mat: n.mat.clone(),
        bias: n.bias.clone(),
    };
    if n.isleaf {
        // default_func: simplify_zero, skip axes >= 20, rows >= 5
        check_block(text, &a, 2, false, false, true, false).map(|_| ())
    } else {
        check_block(text, &a, 2, true, true, false, true).map(|_| ())
    }
}

/// Display of trees with branching factor 4 (decisions with two-row predicates); DOT exists for K = 2 only
fn run_tree4(case: u64, rng: &mut Rng, ev: &mut Ev) {
    let in_dim = 1 + rng.below(4);
    let out_dim = 1 + rng.below(3);
    let mut cfg = gen::TreeCfg::basic(4, in_dim, out_dim, if rng.chance(0.5) { Regime::Dyadic } else { Regime::Short });
    cfg.max_depth = 1 + rng.below(3);
    cfg.p_missing = if rng.chance(0.5) { 0.3 } else { 0.0 };
    cfg.p_zero_pred = 0.1;
    cfg.allow_leaf_root = true;
    let spec = gen::spec(rng, &cfg);
    let scr = rng.chance(0.6);
    let tree = gen::build::<4>(&spec, rng, scr);
    let s = snap(&tree);
    let desc = json!({"K": 4, "tree": s.to_json()});
    ev.evaluations += 1;
    let disp = match lib(case, "AffTree<4> Display", || format!("{}", tree)) {
        Ok(t) => t,
        Err(p) => {
            ev.violation(case, "c19:tree-display:panic", "", json!({"case": desc, "panic": p}));
            return;
        }
    };
    if let Err(e) = check_display(&s, &disp) {
        ev.violation(case, "c19:tree-display:k4", "", json!({"case": desc, "output": disp, "problem": e}));
        return;
    }
    ev.inc("k4_trees_rendered");
    ev.count("tree_nodes_rendered", s.nodes.len() as u64);
    if s.nodes.values().any(|n| n.has_children() && n.mat.len() == 2) {
        ev.inc("k4_trees_with_two_row_predicates");
        ev.nontrivial(s.structural_hash());
    }
}

fn run_tree(case: u64, rng: &mut Rng, ev: &mut Ev) {
    if rng.chance(0.25) {
        return run_tree4(case, rng, ev);
    }
    let big = rng.chance(0.25);
    let in_dim = if big { 21 + rng.below(5) } else { 1 + rng.below(4) };
    let out_dim = if rng.chance(0.2) { 6 + rng.below(2) } else { 1 + rng.below(3) };
    let mut cfg = gen::TreeCfg::basic(2, in_dim, out_dim, if rng.chance(0.5) { Regime::Dyadic } else { Regime::Short });
    cfg.max_depth = 1 + rng.below(4);
    cfg.p_missing = if rng.chance(0.5) { 0.25 } else { 0.0 };
    cfg.p_zero_pred = 0.1;
    cfg.allow_leaf_root = true;
    let spec = gen::spec(rng, &cfg);
    let scr = rng.chance(0.6);
    let tree = gen::build::<2>(&spec, rng, scr);
    let s = snap(&tree);
    let contiguous = s.nodes.keys().max().unwrap() + 1 == s.nodes.len();
    let desc = json!({"tree": s.to_json()});
    ev.evaluations += 1;

    // ---- Display
    let disp = match lib(case, "AffTree Display", || format!("{}", tree)) {
        Ok(t) => t,
        Err(p) => {
            ev.violation(case, "c19:tree-display:panic", "", json!({"case": desc, "panic": p}));
            return;
        }
    };
    if let Err(e) = check_display(&s, &disp) {
        ev.violation(case, "c19:tree-display", "", json!({"case": desc, "output": disp, "problem": e}));
        return;
    }
    // ---- DOT
    let dot = match lib(case, "Dot Display", || format!("{}", Dot::from(&tree))) {
        Ok(t) => t,
        Err(p) => {
            ev.violation(case, "c19:dot:panic", "", json!({"case": desc, "panic": p}));
            return;
        }
    };
    if let Err(e) = check_dot(&s, &dot) {
        ev.violation(case, "c19:dot", "", json!({"case": desc, "output": dot, "problem": e}));
        return;
    }
    ev.inc("trees_rendered");
    ev.count("tree_nodes_rendered", s.nodes.len() as u64);
    if !contiguous || big {
        if !contiguous {
            ev.inc("noncontiguous_trees");
        }
        ev.nontrivial(s.structural_hash());
    }
}

fn check_display(s: &Snap, text: &str) -> Result<(), String> {
    let mut lines = text.split('\n').peekable();
    let head = lines.next().unwrap_or("");
    if head != format!("Decision Tree with {} nodes", s.nodes.len()) {
        return Err(format!("header '{}' (tree has {} nodes)", head, s.nodes.len()));
    }
    let mut seen = std::collections::BTreeSet::new();
    let mut cur: Option<(usize, bool, String, Option<String>)> = None;
    let mut blocks: Vec<(usize, bool, String, Option<String>)> = Vec::new();
    for l in lines {
        if l.starts_with('[') && l.contains('|') && l.contains(']') {
            if let Some(c) = cur.take() {
                blocks.push(c);
            }
            let close = l.find(']').unwrap();
            let inner = &l[1..close];
            let mut it = inner.split('|');
            let idx: usize = it.next().unwrap().trim().parse().map_err(|_| format!("bad node header '{}'", l))?;
            let flag = it.next().unwrap_or("");
            let rest = l[close + 1..].strip_prefix(' ').unwrap_or(&l[close + 1..]);
            cur = Some((idx, flag == "T", rest.to_string(), None));
        } else if let Some(ch) = l.strip_prefix("children: ") {
            match cur.as_mut() {
                Some(c) => c.3 = Some(ch.to_string()),
                None => return Err("children line before any node".into()),
            }
        } else if !l.is_empty() {
            match cur.as_mut() {
                Some(c) => {
                    c.2.push('\n');
                    c.2.push_str(l);
                }
                None => return Err(format!("stray line '{}'", l)),
            }
        }
    }
    if let Some(c) = cur.take() {
        blocks.push(c);
    }
    for (idx, leaf, body, children) in blocks {
        let n = s.nodes.get(&idx).ok_or(format!("node {} is not in the tree", idx))?;
        if !seen.insert(idx) {
            return Err(format!("node {} listed twice", idx));
        }
        if leaf != n.isleaf {
            return Err(format!("node {} flagged {} but isleaf={}", idx, if leaf { "T" } else { "D" }, n.isleaf));
        }
        node_block_ok(s, idx, &body).map_err(|e| format!("node {}: {}", idx, e))?;
        let expect: Vec<String> = n.children.iter().enumerate().filter_map(|(l, c)| c.map(|c| format!("{}->{}", l, c))).collect();
        match children {
            None => {
                if !expect.is_empty() {
                    return Err(format!("node {}: children line missing", idx));
                }
            }
            Some(ch) => {
                let got: Vec<String> = ch.split(',').map(|t| t.trim().to_string()).filter(|t| !t.is_empty()).collect();
                if got != expect {
                    return Err(format!("node {}: children '{}' expected {:?}", idx, ch, expect));
                }
            }
        }
    }
    if seen.len() != s.nodes.len() {
        return Err(format!("{} of {} nodes listed", seen.len(), s.nodes.len()));
    }
    Ok(())
}

fn check_dot(s: &Snap, text: &str) -> Result<(), String> {
    if !text.starts_with("digraph ") || !text.trim_end().ends_with('}') {
        return Err("not a digraph".into());
    }
    // node statements: n<idx> [label="...", attr];   (labels may contain newlines)
    let mut nodes_seen = std::collections::BTreeSet::new();
    let mut edges_seen = std::collections::BTreeSet::new();
    let mut rest = text;
    while let Some(pos) = rest.find("[label=") {
        // statement head = text since the previous line break before pos
        let head_start = rest[..pos].rfind('\n').map(|p| p + 1).unwrap_or(0);
        let head = rest[head_start..pos].trim();
        let after = &rest[pos + 7..];
        if head.contains("->") {
            // edge: n<a> -> n<b> [label=L, style];
            let end = after.find("];").ok_or("unterminated edge statement")?;
            let attrs = &after[..end];
            let lab: usize = attrs.split(',').next().unwrap().trim().parse().map_err(|_| format!("bad edge label in '{}'", attrs))?;
            let mut parts = head.split("->");
            let a: usize = parts.next().unwrap().trim().strip_prefix('n').and_then(|v| v.parse().ok()).ok_or(format!("bad edge head '{}'", head))?;
            let b: usize = parts.next().unwrap().trim().strip_prefix('n').and_then(|v| v.parse().ok()).ok_or(format!("bad edge head '{}'", head))?;
            let an = s.nodes.get(&a).ok_or(format!("edge from unknown node {}", a))?;
            if an.children.get(lab).cloned().flatten() != Some(b) {
                return Err(format!("edge n{} -> n{} labelled {} but the tree has child {:?} there", a, b, lab, an.children.get(lab)));
            }
            if !edges_seen.insert((a, lab, b)) {
                return Err(format!("edge n{} -{}-> n{} emitted twice", a, lab, b));
            }
            rest = &after[end + 2..];
        } else {
            let idx: usize = head.strip_prefix('n').and_then(|v| v.parse().ok()).ok_or(format!("bad node statement head '{}'", head))?;
            if !after.starts_with('"') {
                return Err(format!("node {} label is not quoted", idx));
            }
            let body = &after[1..];
            let end = body.find("\", ").ok_or("unterminated node label")?;
            let label = &body[..end];
            if !s.nodes.contains_key(&idx) {
                return Err(format!("statement for unknown node {}", idx));
            }
            if !nodes_seen.insert(idx) {
                return Err(format!("node {} emitted twice", idx));
            }
            node_block_ok(s, idx, label).map_err(|e| format!("node {}: {}", idx, e))?;
            let stmt_end = body[end..].find("];").ok_or("unterminated node statement")?;
            rest = &body[end + stmt_end + 2..];
        }
    }
    if nodes_seen.len() != s.nodes.len() {
        return Err(format!("{} node statements for {} nodes", nodes_seen.len(), s.nodes.len()));
    }
    let n_edges: usize = s.nodes.values().map(|n| n.n_children()).sum();
    if edges_seen.len() != n_edges {
        return Err(format!("{} edge statements for {} edges", edges_seen.len(), n_edges));
    }
    Ok(())
}
