//! C13 — traversals and tree metrics are exact for every shape and start node.
//!
//! Workload: random shapes (K in {2,3}, missing children, scrambled arenas) x every start node x
//! skip masks (incl. repeated skip_subtree) for DfsPre, DfsEdge, Bfs; PolyhedraIter / PolyhedraGen on
//! binary AffTrees; index-order iterators and metrics.
//! Oracle: reference traversals over the model; size_hint bracket after every call.

use super::treemodel::*;
use crate::ev::{Ev, Hasher};
use crate::rng::Rng;
use crate::util::lib;
use crate::Ctx;
use affinitree::tree::graph::Tree;
use affinitree::tree::iter::{Bfs, DfsEdge, DfsPre, TraversalMut};
use serde_json::json;
use std::collections::BTreeSet;

pub fn run_case(ctx: &Ctx, case: u64, ev: &mut Ev) {
    let mut rng = Rng::derive(ctx.seed, "C13", case);
    rng.big = crate::draw_big(ctx, &mut rng);
    match rng.below(5) {
        0 | 1 => run::<2>(case, &mut rng, ev),
        2 | 3 => run::<3>(case, &mut rng, ev),
        _ => run_poly(case, &mut rng, ev),
    }
}

/// reference pre-order stream with skip semantics: items (depth, index, n_remaining)
fn ref_dfs(m: &Model, start: usize, skip_after: &BTreeSet<usize>) -> Vec<(usize, usize, usize)> {
    // skip_after: positions in the *output stream* after which skip_subtree is called
    let mut out: Vec<(usize, usize, usize)> = Vec::new();
    // explicit stack of (depth, idx, n_remaining)
    let mut stack = vec![(0usize, start, 0usize)];
    while let Some((d, i, r)) = stack.pop() {
        let pos = out.len();
        out.push((d, i, r));
        if skip_after.contains(&pos) {
            continue;
        }
        let kids: Vec<usize> = m.nodes[&i].children.iter().flatten().cloned().collect();
        let n = kids.len();
        for (j, c) in kids.iter().enumerate().rev() {
            stack.push((d + 1, *c, n - 1 - j));
        }
    }
    out
}

fn ref_bfs(m: &Model, start: usize, skip_after: &BTreeSet<usize>) -> Vec<(usize, usize, usize)> {
    let mut out = Vec::new();
    let mut queue = std::collections::VecDeque::new();
    queue.push_back((0usize, start, 0usize));
    while let Some((d, i, r)) = queue.pop_front() {
        let pos = out.len();
        out.push((d, i, r));
        if skip_after.contains(&pos) {
            continue;
        }
        let kids: Vec<usize> = m.nodes[&i].children.iter().flatten().cloned().collect();
        let n = kids.len();
        for (j, c) in kids.iter().enumerate() {
            queue.push_back((d + 1, *c, n - 1 - j));
        }
    }
    out
}

fn ref_edges(m: &Model, start: usize, skip_after: &BTreeSet<usize>) -> Vec<(usize, usize, usize)> {
    let mut out = Vec::new();
    let mut stack: Vec<(usize, usize, usize)> = Vec::new();
    for (l, c) in m.nodes[&start].children.iter().enumerate().rev() {
        if let Some(c) = c {
            stack.push((start, l, *c));
        }
    }
    while let Some((s, l, d)) = stack.pop() {
        let pos = out.len();
        out.push((s, l, d));
        if skip_after.contains(&pos) {
            continue;
        }
        for (l2, c) in m.nodes[&d].children.iter().enumerate().rev() {
            if let Some(c) = c {
                stack.push((d, l2, *c));
            }
        }
    }
    out
}

fn skip_mask(rng: &mut Rng, n: usize) -> BTreeSet<usize> {
    let mut s = BTreeSet::new();
    if n == 0 {
        return s;
    }
    match rng.below(4) {
        0 => {}
        1 => {
            s.insert(rng.below(n));
        }
        2 => {
            for _ in 0..(1 + rng.below(3)) {
                s.insert(rng.below(n));
            }
        }
        _ => {
            for i in 0..n {
                if rng.chance(0.3) {
                    s.insert(i);
                }
            }
        }
    }
    s
}

fn run<const K: usize>(case: u64, rng: &mut Rng, ev: &mut Ev) {
    let target = 1 + rng.below(if rng.big { 40 } else { 14 });
    let removals = rng.chance(0.6);
    let (t, m) = random_tree::<K>(rng, target, removals);
    let snap = tsnap(&t);
    if let Some(d) = m.diff(&snap) {
        // construction itself is C12's subject; here it only disables the case
        ev.skip(&format!("construction mismatch: {}", d));
        return;
    }
    let contiguous = m.nodes.keys().cloned().max().unwrap() + 1 == m.nodes.len();
    let mut h = Hasher::new();
    h.u(K as u64);
    for (i, n) in &m.nodes {
        h.u(*i as u64);
        for c in &n.children {
            h.u(c.map(|c| c as u64 + 1).unwrap_or(0));
        }
    }
    let shape = json!({"K": K, "nodes": m.nodes.iter().map(|(i,n)| json!([i, n.children])).collect::<Vec<_>>(), "root": m.root});

    macro_rules! fail {
        ($sig:expr, $msg:expr) => {{
            ev.violation(case, $sig, "", json!({"tree": shape, "problem": $msg}));
            ev.evaluations += 1;
            return;
        }};
    }

    let starts: Vec<usize> = m.nodes.keys().cloned().collect();
    let mut nontrivial = K == 3;
    for &start in &starts {
        if start != m.root {
            nontrivial = true;
        }
        let full = ref_dfs(&m, start, &BTreeSet::new());
        // ---------------- DfsPre
        for rep in 0..2 {
            let mask = if rep == 0 { BTreeSet::new() } else { skip_mask(rng, full.len()) };
            let repeat_skip = rng.chance(0.4);
            if !mask.is_empty() {
                nontrivial = true;
            }
            let expect = ref_dfs(&m, start, &mask);
            let res = lib(case, "DfsPre traversal", || {
                let mut it = DfsPre::iter(&t, start);
                let mut got: Vec<(usize, usize, usize)> = Vec::new();
                let mut hints: Vec<(usize, (usize, Option<usize>), &'static str)> = Vec::new();
                hints.push((0, it.size_hint(), "new"));
                while let Some(d) = it.next() {
                    got.push((d.depth, d.index, d.n_remaining));
                    hints.push((got.len(), it.size_hint(), "next"));
                    if mask.contains(&(got.len() - 1)) {
                        it.skip_subtree();
                        hints.push((got.len(), it.size_hint(), "skip"));
                        if repeat_skip {
                            it.skip_subtree();
                            hints.push((got.len(), it.size_hint(), "skip-again"));
                        }
                    }
                    if got.len() > 10_000 {
                        break;
                    }
                }
                hints.push((got.len(), it.size_hint(), "end"));
                (got, hints)
            });
            let (got, hints) = match res {
                Ok(x) => x,
                Err(e) => fail!("c13:dfs:panic", format!("start {} mask {:?} repeat {}: {}", start, mask, repeat_skip, e)),
            };
            ev.inc("dfs_traversals");
            if got != expect {
                let kind = if mask.is_empty() { "order" } else if repeat_skip { "repeated-skip" } else { "skip" };
                fail!(
                    &format!("c13:dfs:{}", kind),
                    format!("DfsPre start {} skip-after {:?} repeat {}: got {:?} expected {:?} (depth,index,n_remaining)", start, mask, repeat_skip, got, expect)
                );
            }
            for (emitted, (lb, ub), what) in hints {
                let applied: BTreeSet<usize> = mask.iter().cloned().filter(|p| if what == "next" { *p + 1 < emitted } else { *p < emitted }).collect();
                let remaining = ref_dfs(&m, start, &applied).len() - emitted;
                if lb > remaining || ub.map_or(false, |u| u < remaining) {
                    fail!(
                        &format!("c13:dfs:size_hint:{}", what),
                        format!("DfsPre start {} skip-after {:?}: after {} items ({}), size_hint=({},{:?}) but {} remain", start, mask, emitted, what, lb, ub, remaining)
                    );
                }
                ev.inc("size_hint_checks");
            }
        }
        // ---------------- Bfs
        {
            let fullb = ref_bfs(&m, start, &BTreeSet::new());
            let mask = if rng.chance(0.5) { BTreeSet::new() } else { skip_mask(rng, fullb.len()) };
            let repeat_skip = rng.chance(0.4);
            let expect = ref_bfs(&m, start, &mask);
            let res = lib(case, "Bfs traversal", || {
                let mut it = Bfs::iter(&t, start);
                let mut got = Vec::new();
                let mut hints = Vec::new();
                hints.push((0usize, it.size_hint(), "new"));
                while let Some(d) = it.next() {
                    got.push((d.depth, d.index, d.n_remaining));
                    hints.push((got.len(), it.size_hint(), "next"));
                    if mask.contains(&(got.len() - 1)) {
                        it.skip_subtree();
                        hints.push((got.len(), it.size_hint(), "skip"));
                        if repeat_skip {
                            it.skip_subtree();
                            hints.push((got.len(), it.size_hint(), "skip-again"));
                        }
                    }
                    if got.len() > 10_000 {
                        break;
                    }
                }
                (got, hints)
            });
            let (got, hints) = match res {
                Ok(x) => x,
                Err(e) => fail!("c13:bfs:panic", format!("start {} mask {:?}: {}", start, mask, e)),
            };
            ev.inc("bfs_traversals");
            if got != expect {
                let same_nodes = got.iter().map(|g| (g.0, g.1)).collect::<Vec<_>>() == expect.iter().map(|g| (g.0, g.1)).collect::<Vec<_>>();
                let kind = if same_nodes { "sibling-counter" } else if mask.is_empty() { "order" } else if repeat_skip { "repeated-skip" } else { "skip" };
                fail!(
                    &format!("c13:bfs:{}", kind),
                    format!("Bfs start {} skip-after {:?} repeat {}: got {:?} expected {:?}", start, mask, repeat_skip, got, expect)
                );
            }
            for (emitted, (lb, ub), what) in hints {
                let applied: BTreeSet<usize> = mask.iter().cloned().filter(|p| if what == "next" { *p + 1 < emitted } else { *p < emitted }).collect();
                let remaining = ref_bfs(&m, start, &applied).len() - emitted;
                if lb > remaining || ub.map_or(false, |u| u < remaining) {
                    fail!(
                        &format!("c13:bfs:size_hint:{}", what),
                        format!("Bfs start {} skip-after {:?}: after {} items ({}), size_hint=({},{:?}) but {} remain", start, mask, emitted, what, lb, ub, remaining)
                    );
                }
                ev.inc("size_hint_checks");
            }
        }
        // ---------------- DfsEdge
        {
            let fulle = ref_edges(&m, start, &BTreeSet::new());
            let mask = if rng.chance(0.5) { BTreeSet::new() } else { skip_mask(rng, fulle.len()) };
            let repeat_skip = rng.chance(0.4);
            let expect = ref_edges(&m, start, &mask);
            let res = lib(case, "DfsEdge traversal", || {
                let mut it = DfsEdge::iter(&t, start);
                let mut got = Vec::new();
                let mut hints = Vec::new();
                hints.push((0usize, it.size_hint(), "new"));
                while let Some(e) = it.next() {
                    got.push((e.src, e.label, e.dest));
                    hints.push((got.len(), it.size_hint(), "next"));
                    if mask.contains(&(got.len() - 1)) {
                        it.skip_subtree();
                        hints.push((got.len(), it.size_hint(), "skip"));
                        if repeat_skip {
                            it.skip_subtree();
                            hints.push((got.len(), it.size_hint(), "skip-again"));
                        }
                    }
                    if got.len() > 10_000 {
                        break;
                    }
                }
                (got, hints)
            });
            let (got, hints) = match res {
                Ok(x) => x,
                Err(e) => fail!("c13:edge:panic", format!("start {} mask {:?}: {}", start, mask, e)),
            };
            ev.inc("edge_traversals");
            if got != expect {
                let kind = if start != m.root && mask.is_empty() { "start-node" } else if mask.is_empty() { "order" } else if repeat_skip { "repeated-skip" } else { "skip" };
                fail!(
                    &format!("c13:edge:{}", kind),
                    format!("DfsEdge start {} skip-after {:?} repeat {}: got {:?} expected {:?} (src,label,dest)", start, mask, repeat_skip, got, expect)
                );
            }
            for (emitted, (lb, ub), what) in hints {
                let applied: BTreeSet<usize> = mask.iter().cloned().filter(|p| if what == "next" { *p + 1 < emitted } else { *p < emitted }).collect();
                let remaining = ref_edges(&m, start, &applied).len() - emitted;
                if lb > remaining || ub.map_or(false, |u| u < remaining) {
                    fail!(
                        &format!("c13:edge:size_hint:{}", what),
                        format!("DfsEdge start {} skip-after {:?}: after {} items ({}), size_hint=({},{:?}) but {} remain", start, mask, emitted, what, lb, ub, remaining)
                    );
                }
                ev.inc("size_hint_checks");
            }
        }
        // ---------------- metrics per node
        let nn = t.num_nodes(start);
        if nn != full.len() {
            fail!("c13:num_nodes", format!("num_nodes({}) = {} expected {}", start, nn, full.len()));
        }
        match t.path_to_node(start) {
            Ok(p) => {
                let mut exp = Vec::new();
                let mut cur = start;
                while let Some((pp, l)) = m.label_in_parent(cur) {
                    exp.push((pp, l));
                    cur = pp;
                }
                exp.reverse();
                if p != exp {
                    fail!("c13:path_to_node", format!("path_to_node({}) = {:?} expected {:?}", start, p, exp));
                }
            }
            Err(e) => fail!("c13:path_to_node", format!("path_to_node({}) failed: {}", start, e)),
        }
        if t.num_children(start) != m.nodes[&start].children.iter().flatten().count() {
            fail!("c13:num_children", format!("num_children({})", start));
        }
    }
    // ---------------- whole-tree metrics & index-order iterators
    let all: Vec<usize> = m.nodes.keys().cloned().collect();
    let terms: Vec<usize> = all.iter().cloned().filter(|i| m.nodes[i].children.iter().all(|c| c.is_none())).collect();
    let decs: Vec<usize> = all.iter().cloned().filter(|i| !terms.contains(i)).collect();
    if t.node_indices().collect::<Vec<_>>() != all {
        fail!("c13:node_indices", "node_indices differs from the ascending live index list".to_string());
    }
    if t.terminal_indices().collect::<Vec<_>>() != terms {
        fail!("c13:terminal_indices", format!("terminal_indices {:?} expected {:?}", t.terminal_indices().collect::<Vec<_>>(), terms));
    }
    if t.decision_indices().collect::<Vec<_>>() != decs {
        fail!("c13:decision_indices", "decision_indices wrong".to_string());
    }
    if t.nodes().map(|n| (n.idx, *n.value)).collect::<Vec<_>>() != all.iter().map(|i| (*i, m.nodes[i].value)).collect::<Vec<_>>() {
        fail!("c13:nodes", "nodes() wrong".to_string());
    }
    if t.terminals().map(|n| n.idx).collect::<Vec<_>>() != terms || t.decisions().map(|n| n.idx).collect::<Vec<_>>() != decs {
        fail!("c13:terminals", "terminals()/decisions() wrong".to_string());
    }
    if t.num_terminals() != terms.len() || t.len() != all.len() {
        fail!("c13:num_terminals", format!("num_terminals {} expected {}", t.num_terminals(), terms.len()));
    }
    {
        let mut tm = t.clone();
        let got: Vec<usize> = tm.terminals_mut().map(|n| n.idx).collect();
        if got != terms {
            fail!("c13:terminals_mut", format!("terminals_mut {:?} expected {:?}", got, terms));
        }
        for (i, n) in &m.nodes {
            let exp: Vec<(usize, usize)> = n.children.iter().enumerate().filter_map(|(l, c)| c.map(|c| (l, c))).collect();
            match t.tree_node(*i) {
                Ok(tn) => {
                    if tn.children_iter().collect::<Vec<_>>() != exp {
                        fail!("c13:children_iter", format!("children_iter of node {} is {:?} expected {:?}", i, tn.children_iter().collect::<Vec<_>>(), exp));
                    }
                }
                Err(_) => fail!("c13:tree_node", format!("tree_node({}) failed for a live node", i)),
            }
        }
    }
    let mut edges: Vec<(usize, usize, usize)> = t.edge_iter().map(|e| (e.source_idx, e.label, e.target_idx)).collect();
    edges.sort();
    let mut exp_edges: Vec<(usize, usize, usize)> = Vec::new();
    for (i, n) in &m.nodes {
        for (l, c) in n.children.iter().enumerate() {
            if let Some(c) = c {
                exp_edges.push((*i, l, *c));
            }
        }
    }
    exp_edges.sort();
    if edges != exp_edges {
        fail!("c13:edge_iter", format!("edge_iter {:?} expected {:?}", edges, exp_edges));
    }
    let dfs_all: Vec<usize> = t.dfs_iter().map(|d| d.index).collect();
    if dfs_all != m.subtree(m.root) {
        fail!("c13:dfs_iter", "dfs_iter order".to_string());
    }
    let de: Vec<(usize, usize, usize)> = t.dfs_edge_iter().map(|e| (e.src, e.label, e.dest)).collect();
    if de != ref_edges(&m, m.root, &BTreeSet::new()) {
        fail!("c13:dfs_edge_iter", "dfs_edge_iter order".to_string());
    }
    let depths: Vec<usize> = all.iter().map(|i| m.depth(*i)).collect();
    let maxd = *depths.iter().max().unwrap();
    if t.depth() != maxd {
        fail!("c13:depth", format!("depth() = {} expected {} (root = 0 as pinned by test_depth)", t.depth(), maxd));
    }
    let td: Vec<f64> = terms.iter().map(|i| m.depth(*i) as f64).collect();
    let n = td.len() as f64;
    let mean = td.iter().sum::<f64>() / n;
    let var = if td.len() < 2 { f64::NAN } else { td.iter().map(|d| (d - mean) * (d - mean)).sum::<f64>() / (n - 1.0) };
    let mn = td.iter().cloned().fold(f64::INFINITY, f64::min);
    let mx = td.iter().cloned().fold(f64::NEG_INFINITY, f64::max);
    let (a, b, c, d) = t.depth_stats();
    let close = |x: f64, y: f64| (x.is_nan() && y.is_nan()) || (x - y).abs() <= 1e-9 * (1.0 + y.abs());
    if !(close(a, mn) && close(b, mean) && close(c, var) && close(d, mx)) {
        fail!("c13:depth_stats", format!("depth_stats = {:?} expected ({}, {}, {}, {})", (a, b, c, d), mn, mean, var, mx));
    }
    ev.inc("metric_checks");
    ev.evaluations += 1;
    if !contiguous {
        ev.inc("noncontiguous_arenas");
    }
    if nontrivial {
        ev.nontrivial(h.fin());
    }
    if ev.want_sample() {
        ev.sample(shape);
    }
}

/// PolyhedraIter / PolyhedraGen: stream + size_hint on binary AffTrees (the path polytopes themselves are C09's subject)
fn run_poly(case: u64, rng: &mut Rng, ev: &mut Ev) {
    use crate::gen;
    let mut cfg = gen::TreeCfg::basic(2, 1 + rng.below(3), 1, gen::Regime::Int);
    cfg.max_depth = 1 + rng.below(4);
    cfg.p_missing = if rng.chance(0.5) { 0.25 } else { 0.0 };
    let spec = gen::spec(rng, &cfg);
    let scr = rng.chance(0.6);
    let tree = gen::build::<2>(&spec, rng, scr);
    let s = crate::snap::snap(&tree);
    let mut m = Model::new(2, s.root, 0);
    m.nodes.clear();
    for (i, n) in &s.nodes {
        m.nodes.insert(
            *i,
            MNode {
                value: 0,
                parent: n.parent,
                children: n.children.clone(),
            },
        );
    }
    let full = ref_dfs(&m, s.root, &BTreeSet::new());
    let mask = skip_mask(rng, full.len());
    let repeat_skip = rng.chance(0.3);
    let expect = ref_dfs(&m, s.root, &mask);
    let res = lib(case, "PolyhedraIter traversal", || {
        let mut it = tree.polyhedra_iter();
        let mut got = Vec::new();
        let mut hints = Vec::new();
        hints.push((0usize, it.size_hint(), "new"));
        while let Some((d, i, r, p)) = it.next() {
            got.push((d, i, r, p.len()));
            hints.push((got.len(), it.size_hint(), "next"));
            if mask.contains(&(got.len() - 1)) {
                it.skip_subtree();
                hints.push((got.len(), it.size_hint(), "skip"));
                if repeat_skip {
                    it.skip_subtree();
                    hints.push((got.len(), it.size_hint(), "skip-again"));
                }
            }
            if got.len() > 10_000 {
                break;
            }
        }
        (got, hints)
    });
    let shape = json!({"afftree": s.to_json(), "skip_after": mask.iter().collect::<Vec<_>>(), "repeat": repeat_skip});
    let (got, hints) = match res {
        Ok(x) => x,
        Err(e) => {
            ev.violation(case, "c13:polyiter:panic", "", json!({"case": shape, "panic": e}));
            ev.evaluations += 1;
            return;
        }
    };
    ev.inc("polyhedra_iter_traversals");
    let got3: Vec<(usize, usize, usize)> = got.iter().map(|g| (g.0, g.1, g.2)).collect();
    if got3 != expect {
        ev.violation(
            case,
            if mask.is_empty() { "c13:polyiter:order" } else if repeat_skip { "c13:polyiter:repeated-skip" } else { "c13:polyiter:skip" },
            "",
            json!({"case": shape, "got": got3, "expected": expect}),
        );
        ev.evaluations += 1;
        return;
    }
    for g in &got {
        if g.3 != g.0 {
            ev.violation(case, "c13:polyiter:path-length", "", json!({"case": shape, "node": g.1, "depth": g.0, "reported_halfspaces": g.3}));
            ev.evaluations += 1;
            return;
        }
    }
    for (emitted, (lb, ub), what) in hints {
        let applied: BTreeSet<usize> = mask.iter().cloned().filter(|p| if what == "next" { *p + 1 < emitted } else { *p < emitted }).collect();
                let remaining = ref_dfs(&m, s.root, &applied).len() - emitted;
        if lb > remaining || ub.map_or(false, |u| u < remaining) {
            ev.violation(
                case,
                &format!("c13:polyiter:size_hint:{}", what),
                "",
                json!({"case": shape, "emitted": emitted, "size_hint": [lb, ub], "remaining": remaining}),
            );
            ev.evaluations += 1;
            return;
        }
        ev.inc("size_hint_checks");
    }
    // AffTree-level metrics and accessors against the snapshot
    let n_terms = s.nodes.values().filter(|n| !n.has_children()).count();
    let maxd = s.nodes.keys().map(|i| s.depth_of(*i)).max().unwrap_or(0);
    let acc_ok = tree.len() == s.nodes.len()
        && tree.num_terminals() == n_terms
        && tree.depth() == maxd
        && tree.nodes().count() == s.nodes.len()
        && tree.terminals().count() == n_terms
        && tree.decisions().count() == s.nodes.len() - n_terms
        && !tree.is_empty()
        && tree.in_dim() == s.in_dim
        && tree.polyhedra_iter().count() == s.nodes.len();
    if !acc_ok {
        ev.violation(case, "c13:afftree-metrics", "", json!({"case": shape, "len": tree.len(), "num_terminals": tree.num_terminals(), "depth": tree.depth(), "expected": [s.nodes.len(), n_terms, maxd]}));
        ev.evaluations += 1;
        return;
    }
    ev.evaluations += 1;
    let mut h = Hasher::new();
    h.u(s.structural_hash());
    for x in &mask {
        h.u(*x as u64);
    }
    ev.nontrivial(h.fin());
}

#[allow(dead_code)]
fn _unused(_: &Tree<u32, 2>) {}
