//! C13 — traversals and tree metrics are exact for every shape and start node.
//!
//! Workload: random shapes (K in {2,3}, missing children, scrambled arenas) x every start node x
//! skip masks (incl. repeated skip_subtree) for DfsPre, DfsEdge, Bfs; PolyhedraIter / PolyhedraGen on
//! binary AffTrees; index-order iterators and metrics.
//! Oracle: reference traversals over the model; size_hint bracket after every call.

use super::treemodel::*;
use crate::ev::{Ev, Hasher};
use crate::rng::Rng;
use crate::util::lib;
use crate::Ctx;
use affinitree::tree::graph::Tree;
use affinitree::tree::iter::{Bfs, DfsEdge, DfsPre, TraversalMut};
use serde_json::json;
use std::collections::BTreeSet;

/// A comb several hundred thousand levels deep, traversed and measured on an ordinary 2 MiB thread stack
/// (the worker threads of the harness have 64 MiB, which would hide recursion that grows with the depth).
fn run_deep_comb(case: u64, ev: &mut Ev, depth: usize) {
    ev.evaluations += 1;
    crate::util::wal(&format!("IN-SMALL-STACK-THREAD case={} comb of depth {} (depth, depth_stats, num_nodes, traversals, path_to_node, remove_all_descendants) on a 2 MiB stack", case, depth));
    let handle = std::thread::Builder::new().stack_size(2 << 20).spawn(move || -> Result<(), String> {
        let r = std::panic::catch_unwind(std::panic::AssertUnwindSafe(|| -> Result<(), String> {
            let mut t = Tree::<u32, 2>::new();
            let mut cur = t.add_root(0);
            let root = cur;
            for d in 0..depth {
                // spine under alternating labels, a side leaf under the other one
                let l = d % 2;
                let _ = t.add_child_node(cur, 1 - l, 1).map_err(|e| e.to_string())?;
                cur = t.add_child_node(cur, l, 2).map_err(|e| e.to_string())?;
            }
            let n = 2 * depth + 1;
            let ck = |name: &str, got: usize, exp: usize| -> Result<(), String> { if got == exp { Ok(()) } else { Err(format!("{} = {} expected {}", name, got, exp)) } };
            ck("len", t.len(), n)?;
            ck("depth", t.depth(), depth)?;
            ck("num_nodes(root)", t.num_nodes(root), n)?;
            ck("num_terminals", t.num_terminals(), depth + 1)?;
            let st = t.depth_stats();
            if st.3 != depth as f64 || st.0 != 1.0 {
                return Err(format!("depth_stats = {:?} expected min 1, max {}", st, depth));
            }
            ck("dfs_iter().count()", t.dfs_iter().count(), n)?;
            ck("dfs_edge_iter().count()", t.dfs_edge_iter().count(), n - 1)?;
            let mut b = 0usize;
            let mut it = Bfs::iter(&t, root);
            let mut last_depth = 0usize;
            while let Some(x) = it.next() {
                b += 1;
                last_depth = x.depth;
            }
            ck("Bfs count", b, n)?;
            ck("Bfs last depth", last_depth, depth)?;
            ck("path_to_node(deepest).len()", t.path_to_node(cur).map_err(|e| e.to_string())?.len(), depth)?;
            let first = t.tree_node(root).map_err(|e| e.to_string())?.children_iter().next().unwrap().1;
            let removed = t.remove_all_descendants(root).map_err(|e| e.to_string())?;
            let _ = first;
            ck("remove_all_descendants(root)", removed as usize, n - 1)?;
            ck("len after removal", t.len(), 1)?;
            Ok(())
        }));
        match r {
            Ok(x) => x,
            Err(e) => Err(format!("panic: {}", e.downcast_ref::<String>().cloned().or_else(|| e.downcast_ref::<&str>().map(|s| s.to_string())).unwrap_or_default())),
        }
    });
    let res = match handle {
        Ok(h) => {
            let r = h.join().unwrap_or_else(|_| Err("thread died".into()));
            crate::util::wal(&format!("case={} small-stack thread finished", case));
            r
        }
        Err(_) => {
            ev.skip("could not spawn the small-stack thread");
            return;
        }
    };
    match res {
        Ok(()) => {
            ev.inc("deep_combs_measured_on_a_2MiB_stack");
            ev.count("deep_comb_levels", depth as u64);
        }
        Err(e) => ev.violation(case, "c13:deep-comb", "", json!({"depth": depth, "problem": e})),
    }
}

pub fn run_case(ctx: &Ctx, case: u64, ev: &mut Ev) {
    let mut rng = Rng::derive(ctx.seed, "C13", case);
    rng.big = crate::draw_big(ctx, &mut rng);
    if case % 6000 == 11 && !cfg!(miri) {
        let depth = if ctx.tier == crate::Tier::Thorough { 200_000 + rng.below(200_000) } else { 80_000 + rng.below(60_000) };
        return run_deep_comb(case, ev, depth);
    }
    match rng.below(5) {
        0 | 1 => run::<2>(case, &mut rng, ev),
        2 | 3 => run::<3>(case, &mut rng, ev),
        _ => run_poly(case, &mut rng, ev),
    }
}

/// reference pre-order stream with skip semantics: items (depth, index, n_remaining)
fn ref_dfs(m: &Model, start: usize, skip_after: &BTreeSet<usize>) -> Vec<(usize, usize, usize)> {
    // skip_after: positions in the *output stream* after which skip_subtree is called
    let mut out: Vec<(usize, usize, usize)> = Vec::new();
    // explicit stack of (depth, idx, n_remaining)
    let mut stack = vec![(0usize, start, 0usize)];
    while let Some((d, i, r)) = stack.pop() {
        let pos = out.len();
        out.push((d, i, r));
        if skip_after.contains(&pos) {
            continue;
        }
        let kids: Vec<usize> = m.nodes[&i].children.iter().flatten().cloned().collect();
        let n = kids.len();
        for (j, c) in kids.iter().enumerate().rev() {
            stack.push((d + 1, *c, n - 1 - j));
        }
    }
    out
}

fn ref_bfs(m: &Model, start: usize, skip_after: &BTreeSet<usize>) -> Vec<(usize, usize, usize)> {
    let mut out = Vec::new();
    let mut queue = std::collections::VecDeque::new();
    queue.push_back((0usize, start, 0usize));
    while let Some((d, i, r)) = queue.pop_front() {
        let pos = out.len();
        out.push((d, i, r));
        if skip_after.contains(&pos) {
            continue;
        }
        let kids: Vec<usize> = m.nodes[&i].children.iter().flatten().cloned().collect();
        let n = kids.len();
        for (j, c) in kids.iter().enumerate() {
            queue.push_back((d + 1, *c, n - 1 - j));
        }
    }
    out
}

fn ref_edges(m: &Model, start: usize, skip_after: &BTreeSet<usize>) -> Vec<(usize, usize, usize)> {
    let mut out = Vec::new();
    let mut stack: Vec<(usize, usize, usize)> = Vec::new();
    for (l, c) in m.nodes[&start].children.iter().enumerate().rev() {
        if let Some(c) = c {
            stack.push((start, l, *c));
        }
    }
    while let Some((s, l, d)) = stack.pop() {
        let pos = out.len();
        out.push((s, l, d));
        if skip_after.contains(&pos) {
            continue;
        }
        for (l2, c) in m.nodes[&d].children.iter().enumerate().rev() {
            if let Some(c) = c {
                stack.push((d, l2, *c));
            }
        }
    }
    out
}

fn skip_mask(rng: &mut Rng, n: usize) -> BTreeSet<usize> {
    let mut s = BTreeSet::new();
    if n == 0 {
        return s;
    }
    match rng.below(4) {
        0 => {}
        1 => {
            s.insert(rng.below(n));
        }
        2 => {
            for _ in 0..(1 + rng.below(3)) {
                s.insert(rng.below(n));
            }
        }
        _ => {
            for i in 0..n {
                if rng.chance(0.3) {
                    s.insert(i);
                }
            }
        }
    }
    s
}

fn run<const K: usize>(case: u64, rng: &mut Rng, ev: &mut Ev) {
    let target = 1 + rng.below(if rng.big { 40 } else { 14 });
    let removals = rng.chance(0.6);
    let (t, m) = random_tree::<K>(rng, target, removals);
    let snap = tsnap(&t);
    if let Some(d) = m.diff(&snap) {
        // construction itself is C12's subject; here it only disables the case
        ev.skip(&format!("construction mismatch: {}", d));
        return;
    }
    let contiguous = m.nodes.keys().cloned().max().unwrap() + 1 == m.nodes.len();
    let mut h = Hasher::new();
    h.u(K as u64);
    for (i, n) in &m.nodes {
        h.u(*i as u64);
        for c in &n.children {
            h.u(c.map(|c| c as u64 + 1).unwrap_or(0));
        }
    }
    let shape = json!({"K": K, "nodes": m.nodes.iter().map(|(i,n)| json!([i, n.children])).collect::<Vec<_>>(), "root": m.root});

    macro_rules! fail {
        ($sig:expr, $msg:expr) => {{
            ev.violation(case, $sig, "", json!({"tree": shape, "problem": $msg}));
            ev.evaluations += 1;
            return;
        }};
    }

    let starts: Vec<usize> = m.nodes.keys().cloned().collect();
    let mut nontrivial = K == 3;
    for &start in &starts {
        if start != m.root {
            nontrivial = true;
        }
        let full = ref_dfs(&m, start, &BTreeSet::new());
        // ---------------- DfsPre
        for rep in 0..2 {
            let mask = if rep == 0 { BTreeSet::new() } else { skip_mask(rng, full.len()) };
            let repeat_skip = rng.chance(0.4);
            if !mask.is_empty() {
                nontrivial = true;
            }
            let expect = ref_dfs(&m, start, &mask);
            let res = lib(case, "DfsPre traversal", || {
                let mut it = DfsPre::iter(&t, start);
                let mut got: Vec<(usize, usize, usize)> = Vec::new();
                let mut hints: Vec<(usize, (usize, Option<usize>), &'static str)> = Vec::new();
                hints.push((0, it.size_hint(), "new"));
                while let Some(d) = it.next() {
                    got.push((d.depth, d.index, d.n_remaining));
                    hints.push((got.len(), it.size_hint(), "next"));
                    if mask.contains(&(got.len() - 1)) {
                        it.skip_subtree();
                        hints.push((got.len(), it.size_hint(), "skip"));
                        if repeat_skip {
                            it.skip_subtree();
                            hints.push((got.len(), it.size_hint(), "skip-again"));
                        }
                    }
                    if got.len() > 10_000 {
                        break;
                    }
                }
                hints.push((got.len(), it.size_hint(), "end"));
                (got, hints)
            });
            let (got, hints) = match res {
                Ok(x) => x,
                Err(e) => fail!("c13:dfs:panic", format!("start {} mask {:?} repeat {}: {}", start, mask, repeat_skip, e)),
            };
            ev.inc("dfs_traversals");
            if got != expect {
                let kind = if mask.is_empty() { "order" } else if repeat_skip { "repeated-skip" } else { "skip" };
                fail!(
                    &format!("c13:dfs:{}", kind),
                    format!("DfsPre start {} skip-after {:?} repeat {}: got {:?} expected {:?} (depth,index,n_remaining)", start, mask, repeat_skip, got, expect)
                );
            }
            for (emitted, (lb, ub), what) in hints {
                let applied: BTreeSet<usize> = mask.iter().cloned().filter(|p| if what == "next" { *p + 1 < emitted } else { *p < emitted }).collect();
                let remaining = ref_dfs(&m, start, &applied).len() - emitted;
                if lb > remaining || ub.map_or(false, |u| u < remaining) {
                    fail!(
                        &format!("c13:dfs:size_hint:{}", what),
                        format!("DfsPre start {} skip-after {:?}: after {} items ({}), size_hint=({},{:?}) but {} remain", start, mask, emitted, what, lb, ub, remaining)
                    );
                }
                ev.inc("size_hint_checks");
            }
        }
        // ---------------- Bfs
        {
            let fullb = ref_bfs(&m, start, &BTreeSet::new());
            let mask = if rng.chance(0.5) { BTreeSet::new() } else { skip_mask(rng, fullb.len()) };
            let repeat_skip = rng.chance(0.4);
            let expect = ref_bfs(&m, start, &mask);
            let res = lib(case, "Bfs traversal", || {
                let mut it = Bfs::iter(&t, start);
                let mut got = Vec::new();
                let mut hints = Vec::new();
                hints.push((0usize, it.size_hint(), "new"));
                while let Some(d) = it.next() {
                    got.push((d.depth, d.index, d.n_remaining));
                    hints.push((got.len(), it.size_hint(), "next"));
                    if mask.contains(&(got.len() - 1)) {
                        it.skip_subtree();
                        hints.push((got.len(), it.size_hint(), "skip"));
                        if repeat_skip {
                            it.skip_subtree();
                            hints.push((got.len(), it.size_hint(), "skip-again"));
                        }
                    }
                    if got.len() > 10_000 {
                        break;
                    }
                }
                (got, hints)
            });
            let (got, hints) = match res {
                Ok(x) => x,
                Err(e) => fail!("c13:bfs:panic", format!("start {} mask {:?}: {}", start, mask, e)),
            };
            ev.inc("bfs_traversals");
            if got != expect {
                let same_nodes = got.iter().map(|g| (g.0, g.1)).collect::<Vec<_>>() == expect.iter().map(|g| (g.0, g.1)).collect::<Vec<_>>();
                let kind = if same_nodes { "sibling-counter" } else if mask.is_empty() { "order" } else if repeat_skip { "repeated-skip" } else { "skip" };
                fail!(
                    &format!("c13:bfs:{}", kind),
                    format!("Bfs start {} skip-after {:?} repeat {}: got {:?} expected {:?}", start, mask, repeat_skip, got, expect)
                );
            }
            for (emitted, (lb, ub), what) in hints {
                let applied: BTreeSet<usize> = mask.iter().cloned().filter(|p| if what == "next" { *p + 1 < emitted } else { *p < emitted }).collect();
                let remaining = ref_bfs(&m, start, &applied).len() - emitted;
                if lb > remaining || ub.map_or(false, |u| u < remaining) {
                    fail!(
                        &format!("c13:bfs:size_hint:{}", what),
                        format!("Bfs start {} skip-after {:?}: after {} items ({}), size_hint=({},{:?}) but {} remain", start, mask, emitted, what, lb, ub, remaining)
                    );
                }
                ev.inc("size_hint_checks");
            }
        }
        // ---------------- DfsEdge
        {
            let fulle = ref_edges(&m, start, &BTreeSet::new());
            let mask = if rng.chance(0.5) { BTreeSet::new() } else { skip_mask(rng, fulle.len()) };
            let repeat_skip = rng.chance(0.4);
            let expect = ref_edges(&m, start, &mask);
            let res = lib(case, "DfsEdge traversal", || {
                let mut it = DfsEdge::iter(&t, start);
                let mut got = Vec::new();
                let mut hints = Vec::new();
                hints.push((0usize, it.size_hint(), "new"));
                while let Some(e) = it.next() {
                    got.push((e.src, e.label, e.dest));
                    hints.push((got.len(), it.size_hint(), "next"));
                    if mask.contains(&(got.len() - 1)) {
                        it.skip_subtree();
                        hints.push((got.len(), it.size_hint(), "skip"));
                        if repeat_skip {
                            it.skip_subtree();
                            hints.push((got.len(), it.size_hint(), "skip-again"));
                        }
                    }
                    if got.len() > 10_000 {
                        break;
                    }
                }
                (got, hints)
            });
            let (got, hints) = match res {
                Ok(x) => x,
                Err(e) => fail!("c13:edge:panic", format!("start {} mask {:?}: {}", start, mask, e)),
            };
            ev.inc("edge_traversals");
            if got != expect {
                let kind = if start != m.root && mask.is_empty() { "start-node" } else if mask.is_empty() { "order" } else if repeat_skip { "repeated-skip" } else { "skip" };
                fail!(
                    &format!("c13:edge:{}", kind),
                    format!("DfsEdge start {} skip-after {:?} repeat {}: got {:?} expected {:?} (src,label,dest)", start, mask, repeat_skip, got, expect)
                );
            }
            for (emitted, (lb, ub), what) in hints {
                let applied: BTreeSet<usize> = mask.iter().cloned().filter(|p| if what == "next" { *p + 1 < emitted } else { *p < emitted }).collect();
                let remaining = ref_edges(&m, start, &applied).len() - emitted;
                if lb > remaining || ub.map_or(false, |u| u < remaining) {
                    fail!(
                        &format!("c13:edge:size_hint:{}", what),
                        format!("DfsEdge start {} skip-after {:?}: after {} items ({}), size_hint=({},{:?}) but {} remain", start, mask, emitted, what, lb, ub, remaining)
                    );
                }
                ev.inc("size_hint_checks");
            }
        }
        // ---------------- metrics per node
        let nn = t.num_nodes(start);
        if nn != full.len() {
            fail!("c13:num_nodes", format!("num_nodes({}) = {} expected {}", start, nn, full.len()));
        }
        match t.path_to_node(start) {
            Ok(p) => {
                let mut exp = Vec::new();
                let mut cur = start;
                while let Some((pp, l)) = m.label_in_parent(cur) {
                    exp.push((pp, l));
                    cur = pp;
                }
                exp.reverse();
                if p != exp {
                    fail!("c13:path_to_node", format!("path_to_node({}) = {:?} expected {:?}", start, p, exp));
                }
            }
            Err(e) => fail!("c13:path_to_node", format!("path_to_node({}) failed: {}", start, e)),
        }
        if t.num_children(start) != m.nodes[&start].children.iter().flatten().count() {
            fail!("c13:num_children", format!("num_children({})", start));
        }
    }
    // ---------------- whole-tree metrics & index-order iterators
    let all: Vec<usize> = m.nodes.keys().cloned().collect();
    let terms: Vec<usize> = all.iter().cloned().filter(|i| m.nodes[i].children.iter().all(|c| c.is_none())).collect();
    let decs: Vec<usize> = all.iter().cloned().filter(|i| !terms.contains(i)).collect();
    if t.node_indices().collect::<Vec<_>>() != all {
        fail!("c13:node_indices", "node_indices differs from the ascending live index list".to_string());
    }
    if t.terminal_indices().collect::<Vec<_>>() != terms {
        fail!("c13:terminal_indices", format!("terminal_indices {:?} expected {:?}", t.terminal_indices().collect::<Vec<_>>(), terms));
    }
    if t.decision_indices().collect::<Vec<_>>() != decs {
        fail!("c13:decision_indices", "decision_indices wrong".to_string());
    }
    if t.nodes().map(|n| (n.idx, *n.value)).collect::<Vec<_>>() != all.iter().map(|i| (*i, m.nodes[i].value)).collect::<Vec<_>>() {
        fail!("c13:nodes", "nodes() wrong".to_string());
    }
    if t.terminals().map(|n| n.idx).collect::<Vec<_>>() != terms || t.decisions().map(|n| n.idx).collect::<Vec<_>>() != decs {
        fail!("c13:terminals", "terminals()/decisions() wrong".to_string());
    }
    if t.num_terminals() != terms.len() || t.len() != all.len() {
        fail!("c13:num_terminals", format!("num_terminals {} expected {}", t.num_terminals(), terms.len()));
    }
    {
        let mut tm = t.clone();
        let got: Vec<usize> = tm.terminals_mut().map(|n| n.idx).collect();
        if got != terms {
            fail!("c13:terminals_mut", format!("terminals_mut {:?} expected {:?}", got, terms));
        }
        for (i, n) in &m.nodes {
            let exp: Vec<(usize, usize)> = n.children.iter().enumerate().filter_map(|(l, c)| c.map(|c| (l, c))).collect();
            match t.tree_node(*i) {
                Ok(tn) => {
                    if tn.children_iter().collect::<Vec<_>>() != exp {
                        fail!("c13:children_iter", format!("children_iter of node {} is {:?} expected {:?}", i, tn.children_iter().collect::<Vec<_>>(), exp));
                    }
                }
                Err(_) => fail!("c13:tree_node", format!("tree_node({}) failed for a live node", i)),
            }
        }
    }
    let mut edges: Vec<(usize, usize, usize)> = t.edge_iter().map(|e| (e.source_idx, e.label, e.target_idx)).collect();
    edges.sort();
    let mut exp_edges: Vec<(usize, usize, usize)> = Vec::new();
    for (i, n) in &m.nodes {
        for (l, c) in n.children.iter().enumerate() {
            if let Some(c) = c {
                exp_edges.push((*i, l, *c));
            }
        }
    }
    exp_edges.sort();
    if edges != exp_edges {
        fail!("c13:edge_iter", format!("edge_iter {:?} expected {:?}", edges, exp_edges));
    }
    let dfs_all: Vec<usize> = t.dfs_iter().map(|d| d.index).collect();
    if dfs_all != m.subtree(m.root) {
        fail!("c13:dfs_iter", "dfs_iter order".to_string());
    }
    let de: Vec<(usize, usize, usize)> = t.dfs_edge_iter().map(|e| (e.src, e.label, e.dest)).collect();
    if de != ref_edges(&m, m.root, &BTreeSet::new()) {
        fail!("c13:dfs_edge_iter", "dfs_edge_iter order".to_string());
    }
    let depths: Vec<usize> = all.iter().map(|i| m.depth(*i)).collect();
    let maxd = *depths.iter().max().unwrap();
    if t.depth() != maxd {
        fail!("c13:depth", format!("depth() = {} expected {} (root = 0 as pinned by test_depth)", t.depth(), maxd));
    }
    // query - reshape - query on the same object: metrics must be recomputed, not remembered. The expected
    // values after the reshape are computed from the parent links of the mutated tree itself.
    {
        let mut t2 = t.clone();
        let _ = (t2.depth(), t2.num_terminals(), t2.depth_stats());
        let single: Vec<usize> = all.iter().cloned().filter(|i| *i != m.root && m.nodes[i].children.iter().flatten().count() == 1).collect();
        let deepest = *all.iter().max_by_key(|i| m.depth(**i)).unwrap();
        let what = if !single.is_empty() && rng.chance(0.6) {
            // merge every single-child node on the way (shortens paths without changing len by more than that)
            let mut n = 0;
            for p in single.iter().rev() {
                if t2.tree_node(*p).map(|nd| nd.children_iter().count() == 1).unwrap_or(false) && t2.parent(*p).is_ok() {
                    let l = t2.tree_node(*p).unwrap().children_iter().next().unwrap().0;
                    if t2.merge_child_with_parent(*p, l).is_ok() {
                        n += 1;
                    }
                }
            }
            format!("merge_child_with_parent x{}", n)
        } else if deepest != m.root && rng.chance(0.5) {
            let (pp, ll) = m.label_in_parent(deepest).unwrap();
            let _ = t2.try_remove_child(pp, ll);
            "try_remove_child(deepest node)".to_string()
        } else {
            let l = (0..K).find(|l| m.nodes[&deepest].children[*l].is_none()).unwrap_or(0);
            let _ = t2.add_child_node(deepest, l, 4242);
            "add_child_node(below the deepest node)".to_string()
        };
        let mut exp_depth = 0usize;
        let mut exp_terms = 0usize;
        for i in t2.node_indices().collect::<Vec<_>>() {
            let mut d = 0;
            let mut cur = i;
            while let Ok(e) = t2.parent(cur) {
                cur = e.source_idx;
                d += 1;
                if d > 1_000_000 {
                    break;
                }
            }
            exp_depth = exp_depth.max(d);
            if t2.tree_node(i).map(|nd| nd.children_iter().count() == 0).unwrap_or(false) {
                exp_terms += 1;
            }
        }
        if t2.depth() != exp_depth || t2.num_terminals() != exp_terms || t2.depth_stats().3 != exp_depth as f64 {
            fail!(
                "c13:metrics-after-reshape",
                format!("after {}: depth() = {}, num_terminals() = {}, depth_stats().max = {}; recomputed from the parent links: depth {}, terminals {}", what, t2.depth(), t2.num_terminals(), t2.depth_stats().3, exp_depth, exp_terms)
            );
        }
    }
    let td: Vec<f64> = terms.iter().map(|i| m.depth(*i) as f64).collect();
    let n = td.len() as f64;
    let mean = td.iter().sum::<f64>() / n;
    let var = if td.len() < 2 { f64::NAN } else { td.iter().map(|d| (d - mean) * (d - mean)).sum::<f64>() / (n - 1.0) };
    let mn = td.iter().cloned().fold(f64::INFINITY, f64::min);
    let mx = td.iter().cloned().fold(f64::NEG_INFINITY, f64::max);
    let (a, b, c, d) = t.depth_stats();
    let close = |x: f64, y: f64| (x.is_nan() && y.is_nan()) || (x - y).abs() <= 1e-9 * (1.0 + y.abs());
    if !(close(a, mn) && close(b, mean) && close(c, var) && close(d, mx)) {
        fail!("c13:depth_stats", format!("depth_stats = {:?} expected ({}, {}, {}, {})", (a, b, c, d), mn, mean, var, mx));
    }
    ev.inc("metric_checks");
    ev.evaluations += 1;
    if !contiguous {
        ev.inc("noncontiguous_arenas");
    }
    if nontrivial {
        ev.nontrivial(h.fin());
    }
    if ev.want_sample() {
        ev.sample(shape);
    }
}

/// PolyhedraIter / PolyhedraGen: stream + size_hint on binary AffTrees (the path polytopes themselves are C09's subject)
fn run_poly(case: u64, rng: &mut Rng, ev: &mut Ev) {
    use crate::gen;
    let mut cfg = gen::TreeCfg::basic(2, 1 + rng.below(3), 1, gen::Regime::Int);
    cfg.max_depth = 1 + rng.below(4);
    cfg.p_missing = if rng.chance(0.5) { 0.25 } else { 0.0 };
    let spec = gen::spec(rng, &cfg);
    let scr = rng.chance(0.6);
    let tree = gen::build::<2>(&spec, rng, scr);
    let s = crate::snap::snap(&tree);
    let mut m = Model::new(2, s.root, 0);
    m.nodes.clear();
    for (i, n) in &s.nodes {
        m.nodes.insert(
            *i,
            MNode {
                value: 0,
                parent: n.parent,
                children: n.children.clone(),
            },
        );
    }
    let full = ref_dfs(&m, s.root, &BTreeSet::new());
    let mask = skip_mask(rng, full.len());
    let repeat_skip = rng.chance(0.3);
    let expect = ref_dfs(&m, s.root, &mask);
    let res = lib(case, "PolyhedraIter traversal", || {
        let mut it = tree.polyhedra_iter();
        let mut got = Vec::new();
        let mut hints = Vec::new();
        hints.push((0usize, it.size_hint(), "new"));
        while let Some((d, i, r, p)) = it.next() {
            got.push((d, i, r, p.len()));
            hints.push((got.len(), it.size_hint(), "next"));
            if mask.contains(&(got.len() - 1)) {
                it.skip_subtree();
                hints.push((got.len(), it.size_hint(), "skip"));
                if repeat_skip {
                    it.skip_subtree();
                    hints.push((got.len(), it.size_hint(), "skip-again"));
                }
            }
            if got.len() > 10_000 {
                break;
            }
        }
        (got, hints)
    });
    let shape = json!({"afftree": s.to_json(), "skip_after": mask.iter().collect::<Vec<_>>(), "repeat": repeat_skip});
    let (got, hints) = match res {
        Ok(x) => x,
        Err(e) => {
            ev.violation(case, "c13:polyiter:panic", "", json!({"case": shape, "panic": e}));
            ev.evaluations += 1;
            return;
        }
    };
    ev.inc("polyhedra_iter_traversals");
    let got3: Vec<(usize, usize, usize)> = got.iter().map(|g| (g.0, g.1, g.2)).collect();
    if got3 != expect {
        ev.violation(
            case,
            if mask.is_empty() { "c13:polyiter:order" } else if repeat_skip { "c13:polyiter:repeated-skip" } else { "c13:polyiter:skip" },
            "",
            json!({"case": shape, "got": got3, "expected": expect}),
        );
        ev.evaluations += 1;
        return;
    }
    for g in &got {
        if g.3 != g.0 {
            ev.violation(case, "c13:polyiter:path-length", "", json!({"case": shape, "node": g.1, "depth": g.0, "reported_halfspaces": g.3}));
            ev.evaluations += 1;
            return;
        }
    }
    for (emitted, (lb, ub), what) in hints {
        let applied: BTreeSet<usize> = mask.iter().cloned().filter(|p| if what == "next" { *p + 1 < emitted } else { *p < emitted }).collect();
                let remaining = ref_dfs(&m, s.root, &applied).len() - emitted;
        if lb > remaining || ub.map_or(false, |u| u < remaining) {
            ev.violation(
                case,
                &format!("c13:polyiter:size_hint:{}", what),
                "",
                json!({"case": shape, "emitted": emitted, "size_hint": [lb, ub], "remaining": remaining}),
            );
            ev.evaluations += 1;
            return;
        }
        ev.inc("size_hint_checks");
    }
    // AffTree-level metrics and accessors against the snapshot
    let n_terms = s.nodes.values().filter(|n| !n.has_children()).count();
    let maxd = s.nodes.keys().map(|i| s.depth_of(*i)).max().unwrap_or(0);
    let acc_ok = tree.len() == s.nodes.len()
        && tree.num_terminals() == n_terms
        && tree.depth() == maxd
        && tree.nodes().count() == s.nodes.len()
        && tree.terminals().count() == n_terms
        && tree.decisions().count() == s.nodes.len() - n_terms
        && !tree.is_empty()
        && tree.in_dim() == s.in_dim
        && tree.polyhedra_iter().count() == s.nodes.len();
    if !acc_ok {
        ev.violation(case, "c13:afftree-metrics", "", json!({"case": shape, "len": tree.len(), "num_terminals": tree.num_terminals(), "depth": tree.depth(), "expected": [s.nodes.len(), n_terms, maxd]}));
        ev.evaluations += 1;
        return;
    }
    ev.evaluations += 1;
    let mut h = Hasher::new();
    h.u(s.structural_hash());
    for x in &mask {
        h.u(*x as u64);
    }
    ev.nontrivial(h.fin());
}

#[allow(dead_code)]
fn _unused(_: &Tree<u32, 2>) {}
