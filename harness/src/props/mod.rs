//! Property monitors and their registry.

pub mod c01;
pub mod c02;
pub mod c03;
pub mod c04;
pub mod c05;
pub mod c06;
pub mod c07;
pub mod c08;
pub mod c09;
pub mod c10;
pub mod c11;
pub mod c12;
pub mod common;
pub mod hist;
pub mod refnet;
pub mod c13;
pub mod c14;
pub mod c15;
pub mod c16;
pub mod c17;
pub mod c18;
pub mod c19;
pub mod treemodel;

use crate::known::Known;
use crate::PropDef;

pub fn registry() -> &'static [PropDef] {
    static R: std::sync::OnceLock<Vec<PropDef>> = std::sync::OnceLock::new();
    R.get_or_init(build_registry)
}

fn build_registry() -> Vec<PropDef> {
    vec![
    PropDef {
        id: "C12",
        level: "exploration",
        cases_quick: 100_000,
        cases_thorough: 6_000_000,
        run_case: c12::run_case,
        rule: "one case = one random operation sequence (5..60 ops) on Tree<u32,K>, K in {2,3}, arguments drawn from {live index, stale index, never-used index} x {free, occupied label}; checked after every op against an executable reference model, an invariant walker and (after Err) full snapshot equality. Non-trivial = the sequence contained an Err result or an insertion that re-used a previously freed index; distinct = hash of K + the whole op/argument sequence.",
        assumptions: &["calls whose documented behaviour is a panic (label >= K, merge_child_with_parent on a node with != 1 children, remove_child on a missing child) are not generated", "slab's index allocation policy is not modelled: new indices are taken from the real return value and only required to be fresh"],
        watchdog_quick: 600,
        watchdog_thorough: 5400,
        exhaustive_note: None,
    },
    PropDef {
        id: "C13",
        level: "exploration",
        cases_quick: 60_000,
        cases_thorough: 5_000_000,
        run_case: c13::run_case,
        rule: "one case = one random tree shape (K in {2,3}, 1..15 nodes, optional interleaved removals => non-contiguous / re-used arena indices, or a binary AffTree for PolyhedraIter) with EVERY node as traversal start, DfsPre/Bfs/DfsEdge each with and without random skip_subtree masks (incl. immediately repeated skips), size_hint checked after every next/skip, plus all metrics and index-order iterators. Non-trivial = K=3, or a start node other than the root, or at least one skip; distinct = hash of the shape (indices + child arrays) and skip mask.",
        assumptions: &["skip_subtree is only called after at least one item has been returned (the property speaks of 'the last returned item')", "depth() uses the convention pinned by the suite's test_depth (root = 0)"],
        watchdog_quick: 600,
        watchdog_thorough: 5400,
        exhaustive_note: Some("every node of every generated tree is used as start node (complete per tree)"),
    },
    PropDef {
        id: "C16",
        level: "exploration",
        cases_quick: 100_000,
        cases_thorough: 5_000_000,
        run_case: c16::run_case,
        rule: "one case = random affine functions f: R^n->R^m, g: R^k->R^n, f2 (dims 1..5; regimes int / dyadic / short-float / full-float) and inputs; checked: apply, compose (coefficients and the identity compose(f,g)(x)=f(g(x)) in exact rationals), stack, + - * / % in six ownership forms each (bit-equal to the IEEE operator applied coefficient-wise, point-wise for + and -), negation in four forms, apply_transpose, row/row_iter/remove_rows/from_row_iter, view/owned/polytope conversions, remove_zero_rows/columns, convert_to under all four PolyRepr (sign condition iff membership, incl. boundary points) and all 13 named constructors against their doc sentence. Non-trivial = n >= 2 and m >= 2; distinct = hash of regime and all coefficients.",
        assumptions: &["coefficients are normal floats (from_mats debug-asserts this); divisors for / and % are non-zero", "remove_zero_columns is only called with at least one non-zero column"],
        watchdog_quick: 600,
        watchdog_thorough: 5400,
        exhaustive_note: None,
    },
    PropDef {
        id: "C14",
        level: "exploration",
        cases_quick: 20_000,
        cases_thorough: 1_200_000,
        run_case: c14::run_case,
        rule: "one case = random polytopes P, P2 in R^n (n in 1..5, int/dyadic rows, asymmetric biases, occasional zero rows and empty sets), translation vector, affine map R^k->R^n, unimodular integer matrix with exact inverse, signed permutation and 3-4-5 rotation; every operation and constructor (intersection, intersection_n incl. empty list, translate, apply_pre, apply_post, rotate, hypercube, hyperrectangle, axis_bounds with +-inf, unbounded, empty, cross_polytope, from_normal, simplex, distance) is checked on ~100 lattice / half-lattice / exactly-on-boundary points: exact membership of the pre-image vs exact membership in the result rows vs the library's contains(). Non-trivial = the translation is non-zero on a polytope with non-zero bias or the hyperrectangle is asymmetric about the origin (so sign/transposition slips cannot cancel); distinct = hash of P and P2.",
        assumptions: &["exact regime: coefficients are small integers / dyadics so that slack is 0 or far above contains()' 1e-8 tolerance", "distance() is compared only on non-zero rows and on all-space rows (0 <= positive)"],
        watchdog_quick: 600,
        watchdog_thorough: 5400,
        exhaustive_note: None,
    },
    PropDef {
        id: "C15",
        level: "exploration",
        cases_quick: 25_000,
        cases_thorough: 2_000_000,
        run_case: c15::run_case,
        rule: "one case = one constraint system in R^n (n in 1..4, up to 12 rows) assembled from random base rows plus exact duplicates, positively scaled twins, negatively scaled twins (equality pairs), parallel rows with looser/tighter bias, zero rows with positive/zero/negative bias and contradictions; remove_tautologies, remove_duplicate_rows, remove_zero_rows, normalize, remove_rows (arbitrary index sets and oracle-proved redundant sets) and remove_redundant_row_constraints are each checked for: result is an order-preserving subsequence of the original rows (or the canonical empty/all-space form where the property allows it), exact two-way set inclusion with the input (certified simplex), and for the redundancy remover that no surviving row is implied by the other survivors by a margin 1e-6(1+|b|). Non-trivial = an operation dropped at least one row or the system contains a near-miss (negatively scaled twin, parallel row with different bias); distinct = hash of all coefficients.",
        assumptions: &["rows are exact multiples or clearly different (no rows that differ by a few ulps, which remove_duplicate_rows treats as equal by design)", "normalize is compared up to f64 rounding of the scaling and on points at least 1e-9 away from the boundary"],
        watchdog_quick: 600,
        watchdog_thorough: 5400,
        exhaustive_note: None,
    },
    PropDef {
        id: "C17",
        level: "exploration",
        cases_quick: 30_000,
        cases_thorough: 2_000_000,
        run_case: c17::run_case,
        rule: "cases 0..511 enumerate the grid {ReLU, leaky ReLU x 5 alphas, hard tanh x 5 (min,max), hard shrink x 4 lambdas, hard sigmoid, threshold x 5 (theta,value), argmax, class characterisation x 4 classes, inf_norm x 6 bound combinations} x 4 dimensions x 4 rows, each evaluated on the full product lattice over {every breakpoint, +-1/2, +-1 beyond, 0} per component (all ties for argmax) when it has <= 4000 points (else 4000 samples) plus gaussian points; later cases draw random (kind, dim <= 6, row), from_poly with/without else-branch on random polytopes incl. exactly-on-boundary points, and from_slice+compose+remove_axes against the original tree evaluated on the embedded point. Both the library's evaluate() and an independent exact walk of the tree's raw nodes must equal the textbook definition (exact, 1e-12 for hard sigmoid). Non-trivial = at least one input on a breakpoint / tie / polytope boundary (slice cases always count); distinct = hash of (kind, parameters, dim, row) resp. of the polytope / tree and reference point.",
        assumptions: &["textbook definitions as in PyTorch: hardshrink(x)= x if |x|>lambda else 0; threshold(x)= x if x>theta else value; hardsigmoid = clamp(x/6+1/2,0,1); hardtanh = clamp; argmax = first maximal index"],
        watchdog_quick: 600,
        watchdog_thorough: 5400,
        exhaustive_note: Some("parameter grid x dims 1..4 x rows x product lattice is enumerated completely by cases 0..511 (evidence counter full_product_lattices)"),
    },
    PropDef {
        id: "C19",
        level: "exploration",
        cases_quick: 80_000,
        cases_thorough: 6_000_000,
        run_case: c19::run_case,
        rule: "70% of the cases: a random matrix/bias (1..8 rows x 1..30 columns; -0.0, 1e+-12 magnitudes, exact ties in |coefficient|, all-zero rows, values that round to zero) rendered as function or polytope under a random FormatOptions (sort threshold in {0,1,5,n,n+1}, simplify_zero, simplify_tautologies, normalize, skip_axes / skip_rows ranges: empty, interior, prefix, suffix, everything) at precision 0..6; the output is parsed back and every shown (coefficient, $index) pair, bias, inequality direction and truth symbol compared with the stored values (|shown - stored*scale| <= half a unit of the last printed digit, sign right unless printed as zero), indices unique, displayed rows an order-preserving subsequence of the stored rows, and every omission of terms/rows accompanied by an ellipsis. 30%: a random binary AffTree (scrambled arena; some with 21..25 input dimensions or 6..7 output rows so that the default skipping is active; zero predicates) rendered with Display and Dot: exactly one block/statement per arena node whose text parses back to that node's own function or predicate, exactly one edge statement per edge with the real label, correct T/D flag and children list. Non-trivial = sorting or an ellipsis was active, or the tree has non-contiguous indices / large dimensions; distinct = hash of object+options resp. tree structure.",
        assumptions: &["coefficients are normal floats or (-)0.0; a normalised row may be scaled by 1/max|a|, 1/||a||_2 or 1/||a||_1 (any standard normalisation is accepted as faithful)", "DOT shape/style attributes are not part of the property and are not checked"],
        watchdog_quick: 600,
        watchdog_thorough: 5400,
        exhaustive_note: None,
    },
    PropDef {
        id: "C02",
        level: "exploration",
        cases_quick: 30_000,
        cases_thorough: 2_500_000,
        run_case: c02::run_case,
        rule: "one case = a pair of random trees f: R^n->R^m, g: R^m->R^p (K=2 in 70%, K=4 in 30% with 1- or 2-row decisions; depth 0..3 incl. terminal-rooted operands; total or with 25% missing children; scrambled arenas; f optionally pre-pruned so that its nodes carry cached states; int/dyadic/short-float/full-float regimes), h = f.clone().compose::<false,false>(&g) and h2 = f.clone().apply_func(a). Checked: complete graft audit (|h| = |f|+|T_f|(|g|-1), every f index kept, decisions of f untouched, every grafted node holds exactly (A_g M_t, b_g - A_g c_t) resp. (M_g M_t, M_g c_t + c_g) recomputed in exact rationals, labels preserved, missing children stay missing), g bit-identical before/after, and on ~150 probe inputs (lattices, max-slack points of every cell of f and h, points exactly on hyperplanes, gaussian) the exact walk of h equals g(f(x)) with undefinedness, and the library's evaluate() equals the exact walk. Non-trivial = both operands have a decision or one of them is partial; distinct = structural hash of (f, g).",
        assumptions: &["float regimes: inputs whose route passes within relative 1e-9 (1e-7 for g at f(x)) of a hyperplane are skipped, values compared at 1e-9; exact regimes (int, dyadic): everything bit-exact including boundary inputs"],
        watchdog_quick: 600,
        watchdog_thorough: 5400,
        exhaustive_note: Some("the graft audit visits every node of every result tree (complete per tree)"),
    },
    PropDef {
        id: "C03",
        level: "exploration",
        cases_quick: 30_000,
        cases_thorough: 2_500_000,
        run_case: c03::run_case,
        rule: "one case = (50%) a binary tree with a history (random spec tree: depth <= 3, 0/30% missing children, planted contradicting predicates, zero predicates, scrambled arena; then up to 3 random steps of unpruned composition with schema or random (partial) trees, infeasible_elimination, apply_func, so that nodes carry cached Feasible/Witness/Infeasible states) pruned by infeasible_elimination; (30%) f.compose::<true>(g) against f.compose::<false>(g) for the same f (with history) and a random total/partial g or schema tree; (20%) an arithmetic operator on a pair with partial operands (C07 comparator). Oracle: every index removed in place is classified (subtree top must have exact uniform slack < 1e-4, forwarded decisions must have had both children and their other subtree must be such a region; a decision turning into a terminal is a violation; survivors keep index and function; after-paths are subsequences of before-paths), the max-slack interior point of every thick cell (terminal region or undefined region) of both trees and every probe input that ends in a thick cell of the reference tree must be treated identically (exact values, definedness). Non-trivial = pruning removed at least one node; distinct = structural hash of the inputs.",
        assumptions: &["band |t*| < 1e-4 of the exact uniform slack is 'thin': either verdict of the LP is accepted and the case is counted as skipped", "histories that panic or yield a malformed tree before the monitored step are C04's subject and skipped here"],
        watchdog_quick: 600,
        watchdog_thorough: 5400,
        exhaustive_note: Some("the removed-node audit and the thick-cell enumeration are complete for every tree at hand"),
    },
    PropDef {
        id: "C07",
        level: "exploration",
        cases_quick: 50_000,
        cases_thorough: 4_000_000,
        run_case: c07::run_case,
        rule: "one case = (65%) a pair of binary trees a, b over the same dimensions (depth <= 3, terminal-rooted allowed, 30% of operands partial, scrambled arena, divisor trees with non-zero power-of-two coefficients) and one operator of + - * / evaluated in the four ownership forms &a.&b, a.&b, a.b, &a.b; per probe input the terminals reached in a and b by the exact walk determine the expected terminal (same IEEE operator coefficient-wise, bit-equal) and definedness (S5: joint cell of the two end cells must be thick); (35%) tree-affine forms a.f, a.&f, f.a, &f.a for + - * / and -a: structure unchanged, decisions untouched, terminals bit-equal to the operator applied in the right operand order, point-wise meaning for + - neg. Non-trivial = both operands (resp. the tree) have a decision; distinct = hash of operator and operands.",
        assumptions: &["divisors have non-zero coefficients (otherwise from_mats' debug assertion on non-normal floats fires, which is documented behaviour)"],
        watchdog_quick: 600,
        watchdog_thorough: 5400,
        exhaustive_note: None,
    },
    PropDef {
        id: "C08",
        level: "exploration",
        cases_quick: 60_000,
        cases_thorough: 5_000_000,
        run_case: c08::run_case,
        rule: "one case = a random binary tree (depth <= 5, optional missing children, scrambled arena; int / dyadic / short-float) into which equal-terminal subtrees (=> cascading merges over several levels), equal siblings under the root and near-miss sibling pairs (differing in one bias entry, in one coefficient by 1 ulp, in one bias by 1 ulp, or only in 0.0 vs -0.0) were planted; reduce() is checked against an independent recursive reference reduce (result must be isomorphic), exact evaluation before/after on ~150 probe inputs with no tolerance and no exemption, len non-increasing, surviving nodes keep index and function, second reduce() is a structural no-op, no non-root decision with two identical terminal children remains. Non-trivial = at least one merge happened; distinct = structural hash.",
        assumptions: &["'same affine function' is f64 equality of all coefficients (0.0 == -0.0), as in the library"],
        watchdog_quick: 600,
        watchdog_thorough: 5400,
        exhaustive_note: None,
    },
    PropDef {
        id: "C09",
        level: "exploration",
        cases_quick: 30_000,
        cases_thorough: 2_000_000,
        run_case: c09::run_case,
        rule: "one case = a random binary tree (depth <= 5, 0/25% missing children, planted contradictions, occasional zero predicates, scrambled arena with non-contiguous indices). Checked: the complete polyhedra() stream (pre-order, depth, sibling counter, reported halfspaces equal the exact path rows sign included), the same stream under random and repeated skip_subtree calls (every reported path condition must still be the node's own), find_terminal's node and label sequence against the exact walk and the parent links, every probe input (lattices, cell interiors, points exactly on hyperplanes, gaussian) satisfies the reported closed conditions of every node on its route, the exact max-slack interior point of every node's reported region is routed through that node, pairwise exact interior-disjointness of all terminal regions (<= 24 terminals), and for total trees that every half-integer lattice point reaches a terminal whose reported region contains it. Non-trivial = depth >= 3 or an input lay exactly on a hyperplane of its route; distinct = structural hash.",
        assumptions: &["closed-region convention: A x <= b goes to label 1, the reported polytope of label 0 is the closed negation; inputs on a hyperplane lie in both reported polytopes and are routed to label 1", "float regime inputs within relative 1e-9 of a hyperplane on their route are skipped"],
        watchdog_quick: 600,
        watchdog_thorough: 5400,
        exhaustive_note: Some("pairwise disjointness is complete over all terminal pairs of each tree with <= 24 terminals"),
    },
    PropDef {
        id: "C10",
        level: "exploration",
        cases_quick: 60_000,
        cases_thorough: 5_000_000,
        run_case: c10::run_case,
        rule: "one case = (60%) a generated constraint system in R^n, n in 1..4, of one of the classes box+cuts, cone, slab (lineality space), free halfspaces, empty by a margin, empty by 1e-9 (thin band), lower-dimensional, with zero rows (bias +,0,-), duplicates/scaled/parallel rows, all-space, random; status(), is_feasible() and solve_linprog for three objectives (random integer, +- a constraint normal, +- a coordinate) are refereed by the exact simplex: Infeasible only if uniform slack < 1e-4, feasible answers only if slack > -1e-4, witness inside within 1e-6 relative, Optimal value within 1e-6 relative of the exact minimum, Unbounded iff non-empty and unbounded below; (20%) Chebyshev programs of polytopes with rational row norms (axis-aligned and 3-4-5 rows): the constructed program equals {a_i x + |a_i| r <= b_i, r >= 0, min -r} row for row, radius within 1e-6 of the exact optimum, ball inscribed; (20%) online: every LP solved by infeasible_elimination and a pruned composition on a random tree with history, logged through the hook (query + real answer) and refereed by the same oracle. Non-trivial = the instance belongs to a special class (not box+cuts / random), a Chebyshev case, or an online pipeline with at least one LP; distinct = hash of the instance.",
        assumptions: &["thin band |t*| < 1e-4: either verdict allowed (skipped)", "HiGHS backend is not built in this sandbox; only the default minilp backend is observed"],
        watchdog_quick: 600,
        watchdog_thorough: 5400,
        exhaustive_note: None,
    },
    PropDef {
        id: "C06",
        level: "exploration",
        cases_quick: 25_000,
        cases_thorough: 1_500_000,
        run_case: c06::run_case,
        rule: "one case = (65%) a total binary tree with infeasible paths: a random total tree with contradicting predicates planted at every depth, or an affine root, followed by 1..4 steps of unpruned composition with schema trees (ReLU, leaky ReLU, hard tanh, hard shrink), apply_func and earlier eliminations (so that states are cached); after infeasible_elimination every surviving non-root node's path region is classified exactly (empty by a margin => violation), no non-root decision with a thick region may be left with a single branch, a second run on a clone must leave indices, functions and child arrays identical and find zero infeasible LPs, and the function is preserved on thick cells; (35%) a random net (1..3 inputs, up to 7 ReLU / leaky ReLU / hard tanh neurons in up to 3 layers) distilled with afftree_from_layers: all activation patterns are enumerated with the reference network, each closed cell classified exactly, and num_terminals() must lie between the number of full-dimensional cells and the number of cells not empty by a margin. Non-trivial = the first run removed a node resp. the net has an empty activation pattern; distinct = structural hash / hash of the net.",
        assumptions: &["thin band |t*| < 1e-4 is never asserted"],
        watchdog_quick: 600,
        watchdog_thorough: 5400,
        exhaustive_note: Some("all activation patterns of each generated net are enumerated; every surviving node of each tree is classified"),
    },
    PropDef {
        id: "C04",
        level: "exploration",
        cases_quick: 12_000,
        cases_thorough: 800_000,
        run_case: c04::run_case,
        rule: "one case = one operation history on AffTree<2>: constructor drawn from {new, from_aff, from_poly with / without else-branch (sometimes infeasible), every schema generator, manually built total/partial tree} followed by 1..25 operations drawn (with per-case swarm weights for pruning and partial operands) from apply_func, compose::<false> / compose::<true> with schema trees (ReLU, leaky, hard tanh, hard shrink, threshold, hard sigmoid, argmax, class characterisation, inf-norm) or random total/partial trees, infeasible_elimination, reduce, tree +/- tree in the four ownership forms, tree +/- affine in the four forms, negation; arguments made dimension-compatible by a small type model (biased to output dimensions >= 2). After EVERY step: tree-level and AffTree-level well-formedness walker with the predicted output dimension, and (exact-arithmetic histories) the result's exact walk against the exact model 'op applied to the previous snapshot' on probe inputs that end in a thick cell of the result. A panic is caught per step; a process abort (take_mut) is attributed through the write-ahead marker. At the end a usability battery (evaluate, Display, Debug, Dot, polyhedra_iter, depth_stats, a further elimination and reduce). Non-trivial = at least one pruning operation and at least two structure-changing operations; distinct = hash of constructor kind + op-kind sequence.",
        assumptions: &["operations whose documented outcome is a panic are never generated (dimension-incompatible arguments, argmax on width < 2)", "histories containing hard sigmoid (1/6 is not a dyadic) are checked for well-formedness and panics only"],
        watchdog_quick: 600,
        watchdog_thorough: 5400,
        exhaustive_note: None,
    },
    PropDef {
        id: "C05",
        level: "exploration",
        cases_quick: 30_000,
        cases_thorough: 2_500_000,
        run_case: c05::run_case,
        rule: "one case = (75%) an operation history as in C04 (exact regimes) with pruning weight 0.8, into which repeated infeasible_elimination runs, apply_func_at_node on cached terminals and a final remove_axes (+ elimination) are inserted; after EVERY step every node's cache is refereed: each point of a FeasibleWitness list must satisfy every exact path row within 1e-8(1+1e-6) + 4 ulp * sum|a_i p_i|, lists must be non-empty and of the tree's input dimension, and no node marked Infeasible may have a path region with exact uniform slack >= 1e-4; (25%) a direct call mirror_points(P, starts, n) on random polytopes (1..4 dims, 1..6 rows, row norms 1e-6..1e3, zero rows, starts near or 1e3 away, 1..20 iterations): every returned column must satisfy every row within 1e-9 relative. Non-trivial = at least one witness was kept unchanged at a node whose parent, children or function changed in that step (resp. mirror_points returned points after at least one move); distinct = hash of the history / instance.",
        assumptions: &["a Feasible mark on an empty region is not unsound (it can only reduce pruning) and is not checked", "apply_func_at_node is applied to terminals only (on decisions it is documented as caller's responsibility)"],
        watchdog_quick: 600,
        watchdog_thorough: 5400,
        exhaustive_note: Some("every cached state of every node is checked after every step of each history"),
    },
    PropDef {
        id: "C11",
        level: "fault_enumeration",
        cases_quick: 2_000,
        cases_thorough: 120_000,
        run_case: c11::run_case,
        rule: "one case = a binary tree with history (<= 120 nodes) and one of {infeasible_elimination, f.compose::<true>(g) with a random total/partial g, a + b with a random total/partial b}. The fault-free run is logged through the LP hook (N calls); then EVERY single-fault plan (call index i < N) x {Error, Unbounded, optimal point pushed 1e-6 outside the tightest row, optimal point moved by 1e3, optimal point moved by 1e12} is executed, then 6 random plans with 2..N faults and the 5 all-calls-faulty plans. Under each plan: the operation must not panic, the result must be well-formed, every cached witness must lie in its exact path polytope and no Infeasible mark may sit on a thick region (C05 oracle), removed nodes must be exactly-classified non-thick regions (C03 audit), and the function must equal the reference (tree before / unpruned composition / exact a(x)+b(x)) on the interior point of every thick cell and on probe inputs ending in thick cells. 'Fewer terminals than the fault-free run' is recorded, not asserted. Non-trivial = at least one plan changed the answer of a live LP call (seen in the hook log); distinct = hash of the case.",
        assumptions: &["faults model the failure modes the code anticipates for its LP backends (error status, unbounded status, point outside the polytope); that a real backend produces exactly these is outside what can be observed here", "a Feasible mark on an empty region is not counted as unsound"],
        watchdog_quick: 600,
        watchdog_thorough: 5400,
        exhaustive_note: Some("all single-fault positions x 5 fault kinds are enumerated for every case (evidence: fault_plans_executed vs lp_calls_in_fault_free_runs)"),
    },
    PropDef {
        id: "C01",
        level: "exploration",
        cases_quick: 10_000,
        cases_thorough: 600_000,
        run_case: c01::run_case,
        rule: "one case = a random layer list (1..3 inputs, 1..3 linear layers of width 1..3, per neuron one of {none, ReLU, leaky ReLU with alpha in {0,1/2,1/4,2,-1}, hard tanh, hard sigmoid}, optional final argmax or class characterisation; <= 7 activations; int / dyadic / short-float / full-float weights) and a precondition from {none, box, bounded or unbounded polytope, polytope with an affine terminal map, empty, lower-dimensional} built with from_poly(.., None), distilled with afftree_from_layers. On ~150..400 inputs (lattices, the exact max-slack point of every cell of the tree and of every full-dimensional activation cell of the reference network, points exactly on tree hyperplanes and on precondition faces, gaussian) the exact walk of the tree must equal the textbook forward pass in exact rationals (bit-exact in the exact regimes incl. breakpoints and argmax ties; 1e-9 relative and >= 1e-6 margin from breakpoints otherwise), be undefined exactly outside the closed precondition, and the library's evaluate() must agree with the exact walk. Non-trivial = the net has an activation and the tree at least 3 terminals; distinct = hash of layers + precondition.",
        assumptions: &["hard sigmoid's slope 1/6 is not a dyadic: nets containing it are compared at 1e-9 with margins", "inputs of a precondition that is itself lower-dimensional / thinner than 1e-4 may be undefined (counted as undefined_inside_a_thin_precondition, not asserted)"],
        watchdog_quick: 600,
        watchdog_thorough: 5400,
        exhaustive_note: None,
    },
    PropDef {
        id: "C18",
        level: "exploration",
        cases_quick: 15_000,
        cases_thorough: 1_000_000,
        run_case: c18::run_case,
        rule: "one case = (75%) a random sequence of 1..9 Architecture builder calls (linear with right / wrong input width, partial_relu / leaky_relu / hard_tanh / hard_sigmoid with valid / out-of-range index, whole-layer activations, argmax, further calls after argmax) checked against a shape model: accepted iff dimension-compatible, current_shape == output dimension after every call, recorded per-operator shapes, then the accepted architecture is distilled under catch_unwind and compared with the exact reference network on ~100 lattice inputs, and for EVERY split point k the trees of extract_range(0,k) and extract_range(k,n) (shapes checked) are composed and compared with the tree of the whole; (25%) a layer list of 1..30 linear layers (width 1..6, short- or full-mantissa weights) with relu / hard_tanh / hard_sigmoid markers written with ndarray-npy's NpzWriter in the shipped dialect (NNN.linear.weights.npy, NNN.linear.bias.npy, NNN.relu.npy, optional 000.layers.npy, archive order shuffled) and read back with read_layers: same kinds in index order, bit-equal weights, one activation entry per neuron of the preceding linear layer. Non-trivial = the call sequence contains a rejected call or an argmax, or the file has >= 11 entries; distinct = hash of the call sequence / file description.",
        assumptions: &["argmax needs at least two components (schema::argmax indexes component 1)", "npz entry names carry the .npy suffix and zero-padded three-digit indices as in the shipped files"],
        watchdog_quick: 600,
        watchdog_thorough: 5400,
        exhaustive_note: Some("every split point of every accepted architecture is checked"),
    },
    ]
}

pub fn check_known_witness(prop: &str, k: &Known) -> Result<bool, String> {
    match (prop, k.key.as_str()) {
        ("C15", c15::K1_KEY) => c15::k1_witness(&k.witness),
        ("C15", c15::K2_KEY) | ("C15", c15::K3_KEY) => c15::k23_witness(&k.witness),
        ("C10", c15::K1_KEY) => c10::k1_witness(&k.witness),
        _ => Err("no witness executor for this property/key".into()),
    }
}

pub fn selftest() -> Result<usize, String> {
    Ok(0)
}
