//! Property monitors and their registry.

pub mod c12;
pub mod c13;
pub mod treemodel;

use crate::known::Known;
use crate::PropDef;

pub fn registry() -> &'static [PropDef] {
    &REGISTRY
}

static REGISTRY: [PropDef; 2] = [
    PropDef {
        id: "C12",
        level: "exploration",
        cases_quick: 6_000,
        cases_thorough: 1_500_000,
        run_case: c12::run_case,
        rule: "one case = one random operation sequence (5..60 ops) on Tree<u32,K>, K in {2,3}, arguments drawn from {live index, stale index, never-used index} x {free, occupied label}; checked after every op against an executable reference model, an invariant walker and (after Err) full snapshot equality. Non-trivial = the sequence contained an Err result or an insertion that re-used a previously freed index; distinct = hash of K + the whole op/argument sequence.",
        assumptions: &["calls whose documented behaviour is a panic (label >= K, merge_child_with_parent on a node with != 1 children, remove_child on a missing child) are not generated", "slab's index allocation policy is not modelled: new indices are taken from the real return value and only required to be fresh"],
        watchdog_quick: 240,
        watchdog_thorough: 1500,
        exhaustive_note: None,
    },
    PropDef {
        id: "C13",
        level: "exploration",
        cases_quick: 4_000,
        cases_thorough: 600_000,
        run_case: c13::run_case,
        rule: "one case = one random tree shape (K in {2,3}, 1..15 nodes, optional interleaved removals => non-contiguous / re-used arena indices, or a binary AffTree for PolyhedraIter) with EVERY node as traversal start, DfsPre/Bfs/DfsEdge each with and without random skip_subtree masks (incl. immediately repeated skips), size_hint checked after every next/skip, plus all metrics and index-order iterators. Non-trivial = K=3, or a start node other than the root, or at least one skip; distinct = hash of the shape (indices + child arrays) and skip mask.",
        assumptions: &["skip_subtree is only called after at least one item has been returned (the property speaks of 'the last returned item')", "depth() uses the convention pinned by the suite's test_depth (root = 0)"],
        watchdog_quick: 240,
        watchdog_thorough: 1500,
        exhaustive_note: Some("every node of every generated tree is used as start node (complete per tree)"),
    },
];

pub fn check_known_witness(_prop: &str, _k: &Known) -> Result<bool, String> {
    Err("no witness executor for this property".into())
}

pub fn selftest() -> Result<usize, String> {
    Ok(0)
}
