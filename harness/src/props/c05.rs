//! C05 — cached feasibility verdicts and witnesses stay sound across histories.
//!
//! Oracle: after every step, exact membership of every stored witness in the exact path polytope of
//! its node (within the documented 1e-8 containment tolerance), exact non-thickness of every node
//! marked Infeasible; direct checks of mirror_points.

use super::hist::{self, HistCfg, Op};
use crate::ev::{Ev, Hasher};
use crate::gen::{self, arr2, Aff, Regime};
use crate::lpx::{self, Band};
use crate::q::{dot, qv, Q};
use crate::rng::Rng;
use crate::snap::{snap, SState, Snap};
use crate::util::{lib, panic_sig};
use crate::Ctx;
use affinitree::pwl::afftree::AffTree;
use serde_json::json;

/// Coefficients near f64::MAX: for the decision [H, H] <= -H (the half-plane x0 + x1 <= -1 written in units of
/// H = 1e308 or 2^1023) the products H*x0 and H*x1 overflow to +inf and -inf at every witness of the parent
/// region {x0 >= a, x1 <= -b}, their sum is NaN, and a NaN slack is not "inside". No child may inherit such a
/// witness; whatever is cached afterwards must satisfy the exact path conditions.
fn run_overflow(case: u64, rng: &mut Rng, ev: &mut Ev) {
    let a = *rng.pick(&[3.0, 4.0, 8.0]);
    let b = *rng.pick(&[2.0, 3.0]);
    let hh = *rng.pick(&[1e308, 8.98846567431158e307]);
    let t = |v: f64| Aff { mat: vec![vec![1.0, 0.0]], bias: vec![v] };
    ev.evaluations += 1;
    let desc = json!({"overflow_tree": {"root": format!("-x0 <= -{}", a), "then": format!("x1 <= -{}", b), "then_": format!("{:e}*x0 + {:e}*x1 <= -{:e}", hh, hh, hh)}});
    let built = lib(case, "build overflow tree", || -> Result<AffTree<2>, String> {
        let mut tr = AffTree::<2>::from_aff(Aff { mat: vec![vec![-1.0, 0.0]], bias: vec![-a] }.to_lib());
        let r = tr.tree.get_root_idx();
        tr.add_child_node(r, 0, t(0.0).to_lib()).map_err(|e| e.to_string())?;
        let n1 = tr.add_child_node(r, 1, Aff { mat: vec![vec![0.0, 1.0]], bias: vec![-b] }.to_lib()).map_err(|e| e.to_string())?;
        tr.add_child_node(n1, 0, t(1.0).to_lib()).map_err(|e| e.to_string())?;
        let n2 = tr.add_child_node(n1, 1, Aff { mat: vec![vec![hh, hh]], bias: vec![-hh] }.to_lib()).map_err(|e| e.to_string())?;
        tr.add_child_node(n2, 0, t(2.0).to_lib()).map_err(|e| e.to_string())?;
        tr.add_child_node(n2, 1, t(3.0).to_lib()).map_err(|e| e.to_string())?;
        Ok(tr)
    });
    let mut tr = match built {
        Ok(Ok(t)) => t,
        _ => {
            ev.skip("overflow tree could not be built");
            return;
        }
    };
    for round in 0..2 {
        if let Err(pm) = lib(case, "infeasible_elimination (overflow tree)", || tr.infeasible_elimination()) {
            ev.violation(case, "c05:overflow:panic", "", json!({"case": desc, "round": round, "panic": pm}));
            return;
        }
        let s = snap(&tr);
        if let Err((sig, msg)) = caches_sound(&s, ev) {
            ev.violation(case, &format!("c05:{}:overflow-tree", sig), "", json!({"case": desc, "round": round, "problem": msg, "tree": s.to_json()}));
            return;
        }
    }
    ev.inc("overflow_trees_checked");
    let mut h = Hasher::new();
    h.s(&desc.to_string());
    ev.nontrivial(h.fin());
}

pub fn run_case(ctx: &Ctx, case: u64, ev: &mut Ev) {
    let mut rng = Rng::derive(ctx.seed, "C05", case);
    rng.big = crate::draw_big(ctx, &mut rng);
    if case % 200 == 13 {
        return run_overflow(case, &mut rng, ev);
    }
    if rng.chance(0.75) {
        run_history(case, &mut rng, ev);
    } else {
        run_mirror(case, &mut rng, ev);
    }
}

/// Soundness of all caches of a snapshot. Returns (witness nodes, infeasible nodes) or the problem.
pub fn caches_sound(s: &Snap, ev: &mut Ev) -> Result<(usize, usize), (String, String)> {
    let mut nw = 0;
    let mut ni = 0;
    for (i, n) in &s.nodes {
        match &n.state {
            SState::Witness(w) => {
                nw += 1;
                if w.is_empty() {
                    return Err(("empty-witness-list".into(), format!("node {} is FeasibleWitness with an empty list", i)));
                }
                let rows = s.path_rows_f64(*i).map_err(|e| ("path".to_string(), e))?;
                for p in w {
                    if p.len() != s.in_dim || p.iter().any(|v| !v.is_finite()) {
                        return Err(("witness-shape".into(), format!("node {}: witness {:?} has wrong dimension or non-finite entries (tree in_dim {})", i, p, s.in_dim)));
                    }
                    let pq = qv(p);
                    for (k, (row, b)) in rows.iter().enumerate() {
                        // everything in exact rationals: with coefficients near f64::MAX the products overflow in f64
                        let violq = dot(&qv(row), &pq).sub(&Q::from_f64(*b));
                        let act = row.iter().zip(p.iter()).fold(Q::zero(), |acc, (a, x)| acc.add(&Q::from_f64(*a).mul(&Q::from_f64(*x)).abs()));
                        let tolq = Q::from_f64(1e-8 * (1.0 + 1e-6)).add(&act.mul(&Q::from_f64(4.0 * f64::EPSILON)));
                        let viol = violq.to_f64();
                        if violq.gt(&tolq) {
                            return Err((
                                "witness-outside-path".into(),
                                format!("node {}: stored witness {:?} violates path condition {} ({:?} <= {}) by {:e}", i, p, k, row, b, viol),
                            ));
                        }
                    }
                    ev.inc("witness_points_checked");
                }
            }
            SState::Infeasible => {
                ni += 1;
                let sys = s.path_sys(*i).map_err(|e| ("path".to_string(), e))?;
                match lpx::classify(&sys) {
                    Ok((Band::Thick, c)) => {
                        return Err((
                            "infeasible-mark-on-thick-region".into(),
                            format!("node {} is marked Infeasible but its path region is non-empty by a margin (uniform slack {} at {:?})", i, c.t.to_f64(), c.x.iter().map(|q| q.to_f64()).collect::<Vec<_>>()),
                        ))
                    }
                    Ok(_) => ev.inc("infeasible_marks_checked"),
                    Err(_) => ev.skip("oracle-error"),
                }
            }
            _ => {}
        }
    }
    Ok((nw, ni))
}

fn run_history(case: u64, rng: &mut Rng, ev: &mut Ev) {
    let cfg = HistCfg {
        max_ops: if rng.big { 24 } else { *rng.pick(&[4usize, 8, 14]) },
        prune_bias: 0.8,
        partial_bias: *rng.pick(&[0.0, 0.4]),
        allow_inexact: false,
        max_nodes_hint: 300,
    };
    let mut h = hist::generate(rng, &cfg);
    // weight towards (repeated) elimination and operations on cached terminals
    let mut ops: Vec<Op> = Vec::new();
    let mut out_dim = hist::ctor_out_dim(&h.ctor);
    for op in h.ops.drain(..) {
        let od_after = hist::out_dim_after(&op, out_dim);
        ops.push(op);
        out_dim = od_after;
        if rng.chance(0.45) {
            ops.push(Op::Eliminate);
            if rng.chance(0.3) {
                ops.push(Op::Eliminate);
            }
            if rng.chance(0.3) {
                let a = gen::aff(rng, out_dim, out_dim, Regime::Int);
                ops.push(Op::ApplyAtTerminal(a, rng.below(64)));
            }
        }
    }
    ops.push(Op::Eliminate);
    if h.in_dim >= 2 && rng.chance(0.2) {
        let mut mask: Vec<bool> = (0..h.in_dim).map(|_| rng.chance(0.6)).collect();
        if mask.iter().all(|m| !*m) {
            mask[0] = true;
        }
        ops.push(Op::RemoveAxes(mask));
        if rng.chance(0.5) {
            ops.push(Op::Eliminate);
        }
    }
    h.ops = ops;
    let hj = hist::history_json(&h);
    ev.evaluations += 1;
    let mut t: AffTree<2> = match lib(case, "constructor", || hist::construct(&h.ctor, &mut rng.clone())) {
        Ok(Ok(t)) => t,
        _ => {
            ev.skip("constructor failed (C04's subject)");
            return;
        }
    };
    let mut out_dim = hist::ctor_out_dim(&h.ctor);
    let mut prev = snap(&t);
    let mut kept_across_change = 0usize;
    let mut total_witness_nodes = 0usize;
    for (step, op) in h.ops.iter().enumerate() {
        if prev.nodes.len() > 1200 {
            break;
        }
        let operand = hist::operand(op, out_dim, rng);
        t = match hist::apply(op, t, &operand, case, step) {
            Ok(t) => t,
            Err(p) => {
                ev.skip(&format!("history step panicked (C04's subject): {}", panic_sig(&p)));
                return;
            }
        };
        out_dim = hist::out_dim_after(op, out_dim);
        let cur = snap(&t);
        if cur.wf_tree().is_err() {
            ev.skip("history produced a malformed tree (C04's subject)");
            return;
        }
        match caches_sound(&cur, ev) {
            Ok((nw, _)) => total_witness_nodes += nw,
            Err((sig, msg)) => {
                ev.violation(
                    case,
                    &format!("c05:{}:after-{}", sig, op.kind()),
                    "",
                    json!({"history": hj, "failed_step": step, "op": op.name(), "problem": msg, "tree_before_step": prev.to_json(), "tree_after_step": cur.to_json()}),
                );
                return;
            }
        }
        // witnesses that survived a structural change of their node's surroundings
        if op.changes_structure() || matches!(op, Op::ApplyAtTerminal(..)) {
            for (i, n) in &cur.nodes {
                if let (SState::Witness(_), Some(pn)) = (&n.state, prev.nodes.get(i)) {
                    if pn.state == n.state && (pn.parent != n.parent || pn.children != n.children || !pn.same_aff(n)) {
                        kept_across_change += 1;
                    }
                }
            }
        }
        ev.inc(&format!("op_{}", op.kind()));
        prev = cur;
    }
    ev.count("witness_nodes_observed", total_witness_nodes as u64);
    ev.count("witnesses_kept_across_a_structural_change", kept_across_change as u64);
    if kept_across_change > 0 {
        let mut hh = Hasher::new();
        hh.s(&hj.to_string());
        ev.nontrivial(hh.fin());
    }
    if ev.want_sample() && kept_across_change > 0 {
        ev.sample(hj);
    }
}

fn run_mirror(case: u64, rng: &mut Rng, ev: &mut Ev) {
    let n = 1 + rng.below(4);
    let rg = *rng.pick(&[Regime::Int, Regime::Dyadic, Regime::Short, Regime::Full]);
    let m = 1 + rng.below(6);
    let mut p = gen::pred(rng, m, n, rg);
    // 15 %: the polytope is translated 3e6 .. 8e6 away from the origin and the start points with it
    let shift = if rng.chance(0.15) { Some(gen::far_shift(rng, n)) } else { None };
    let scale = if shift.is_some() { *rng.pick(&[1.0, 64.0, 1024.0]) } else { *rng.pick(&[1.0, 1.0, 1e-3, 1e3, 1e-6]) };
    for i in 0..m {
        if rng.chance(if shift.is_some() { 0.6 } else { 0.3 }) {
            for v in p.mat[i].iter_mut() {
                *v *= scale;
            }
            p.bias[i] *= scale;
        }
        if rng.chance(0.6) {
            p.bias[i] = p.bias[i].abs() + 0.5 * scale.min(1.0);
        }
    }
    if rng.chance(0.15) {
        let i = rng.below(m);
        for v in p.mat[i].iter_mut() {
            *v = 0.0;
        }
        p.bias[i] = *rng.pick(&[1.0, 0.0, -1.0]);
    }
    let npts = 1 + rng.below(4);
    let far = rng.chance(0.3);
    if let Some(d) = &shift {
        p.shift_predicate(d);
    }
    let mut cols: Vec<Vec<f64>> = (0..npts)
        .map(|_| (0..n).map(|j| shift.as_ref().map_or(0.0, |d| d[j]) + rng.gauss() * if far { 1e3 } else { 3.0 }).collect())
        .collect();
    if shift.is_some() {
        // start points exactly on a far hyperplane: the heuristic then moves them by ~1e-10, where the
        // rounding of the normalized and of the raw rows differs
        for c in cols.iter_mut() {
            if rng.chance(0.6) {
                let i = rng.below(m);
                if let Some(mut x) = gen::on_hyperplane(rng, &p.mat[i], p.bias[i], 1).pop() {
                    // ... or a few ulps off it
                    if rng.chance(0.7) {
                        let j = rng.below(n);
                        x[j] += if rng.chance(0.5) { 1.0 } else { -1.0 } * 2f64.powi(-(18 + rng.below(9) as i32));
                    }
                    *c = x;
                }
            }
        }
    }
    let starts: Vec<Vec<f64>> = (0..n).map(|j| (0..npts).map(|k| cols[k][j]).collect()).collect();
    let iters = 1 + rng.below(20);
    ev.evaluations += 1;
    let desc = json!({"mirror_points": {"polytope": p.json(), "starts_columns": starts, "n_iterations": iters}});
    let res = lib(case, "mirror_points", || AffTree::<2>::mirror_points(&p.to_poly(), &arr2(&starts, npts), iters));
    match res {
        Err(pm) => {
            ev.violation(case, "c05:mirror_points:panic", "", json!({"case": desc, "panic": pm}));
        }
        Ok(None) => {
            ev.inc("mirror_points_gave_up");
        }
        Ok(Some((pts, cnt))) => {
            ev.inc("mirror_points_returned_points");
            if cnt > 0 {
                ev.inc("mirror_points_after_at_least_one_move");
            }
            for col in pts.axis_iter(ndarray::Axis(1)) {
                let x = col.to_vec();
                if x.iter().any(|v| !v.is_finite()) {
                    ev.violation(case, "c05:mirror_points:non-finite", "", json!({"case": desc, "point": format!("{:?}", x)}));
                    return;
                }
                let xq = qv(&x);
                for (i, (r, b)) in p.mat.iter().zip(p.bias.iter()).enumerate() {
                    let viol = dot(&qv(r), &xq).sub(&Q::from_f64(*b)).to_f64();
                    let sc: f64 = b.abs() + r.iter().zip(x.iter()).map(|(a, v)| (a * v).abs()).sum::<f64>();
                    if viol > 1e-9 * sc {
                        ev.violation(
                            case,
                            "c05:mirror_points:outside",
                            "",
                            json!({"case": desc, "point": x, "row": i, "violation": viol, "problem": "a point returned by mirror_points is outside the polytope it was asked for"}),
                        );
                        return;
                    }
                }
                // the heuristic and the documented containment test of the library itself must agree:
                // phase_one asserts it (debug builds) and caches the point as a witness
                let lp = p.to_poly();
                if !lp.contains(&gen::arr1(&x)) {
                    ev.violation(
                        case,
                        "c05:mirror_points:fails-contains",
                        "",
                        json!({"case": desc, "point": x, "problem": "a point returned by mirror_points does not pass Polytope::contains of the same polytope (phase_one's debug assertion / cached witness)"}),
                    );
                    return;
                }
                ev.inc("mirror_points_verified");
            }
            if cnt > 0 {
                let mut h = Hasher::new();
                h.s(&desc.to_string());
                ev.nontrivial(h.fin());
            }
        }
    }
    let _ = Aff::identity(1);
}
