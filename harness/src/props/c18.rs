//! C18 — Architecture shape tracking and layer files describe the real network.
//!
//! Oracle: a shape model of the builder calls, catch_unwind around the distillation of every
//! accepted architecture, exact functional equality of split-and-composed trees with the whole,
//! layer-by-layer comparison of read_layers with what was written.

use super::refnet::{self, L};
use crate::ev::{Ev, Hasher};
use crate::gen::{self, Aff, Regime};
use crate::q::qv;
use crate::rng::Rng;
use crate::snap::{snap, Ev as TEv};
use crate::util::lib;
use crate::Ctx;
use affinitree::distill::arch::{Architecture, TensorShape};
use affinitree::distill::builder::{afftree_from_layers, read_layers, Layer};
use ndarray::{Array1, Array2};
use ndarray_npy::NpzWriter;
use serde_json::json;

/// A first layer of 64 .. 80 neurons behind a one-dimensional input (cheap to distil: at most width + 1
/// regions), built through Architecture and compared with the reference network.
fn run_wide(case: u64, rng: &mut Rng, ev: &mut Ev) {
    let w = 64 + rng.below(17);
    let mut a1 = Aff { mat: Vec::new(), bias: Vec::new() };
    for i in 0..w {
        a1.mat.push(vec![*rng.pick(&[1.0, -1.0, 2.0, -2.0, 0.5])]);
        a1.bias.push(i as f64 - (w / 2) as f64 + if rng.chance(0.5) { 0.5 } else { 0.0 });
    }
    let a2 = Aff { mat: (0..2).map(|_| (0..w).map(|_| rng.int(-2, 2) as f64).collect()).collect(), bias: vec![1.0, -1.0] };
    let mut arch = Architecture::new(TensorShape::Flat { in_dim: 1 });
    ev.evaluations += 1;
    let desc = json!({"wide_first_layer": w});
    let built = lib(case, "Architecture (wide first layer)", || -> Result<(), String> {
        arch.linear(a1.to_lib()).map_err(|e| format!("{}", e))?;
        arch.relu().map_err(|e| format!("{}", e))?;
        arch.linear(a2.to_lib()).map_err(|e| format!("{}", e))?;
        Ok(())
    });
    match built {
        Ok(Ok(())) => {}
        Ok(Err(e)) => {
            ev.violation(case, "c18:wide:rejected", "", json!({"case": desc, "problem": format!("a dimension-compatible layer sequence was rejected: {}", e)}));
            return;
        }
        Err(p) => {
            ev.violation(case, "c18:wide:panic", "", json!({"case": desc, "panic": p}));
            return;
        }
    }
    let TensorShape::Flat { in_dim: cur } = arch.current_shape;
    if cur != 2 {
        ev.violation(case, "c18:current_shape", "", json!({"case": desc, "problem": format!("current_shape [{}] expected [2]", cur)}));
        return;
    }
    let tree = match lib(case, "afftree_from_layers(wide architecture)", || afftree_from_layers(1, arch.operators(), None)) {
        Ok(t) => t,
        Err(p) => {
            ev.violation(case, "c18:distill:panic", "", json!({"case": desc, "problem": format!("accepted architecture panics during distillation: {}", p)}));
            return;
        }
    };
    let mut layers: Vec<L> = vec![L::Linear(a1.clone())];
    for i in 0..w {
        layers.push(L::Relu(i));
    }
    layers.push(L::Linear(a2.clone()));
    let ts = snap(&tree);
    for k in -90..=90 {
        let x = vec![k as f64 * 0.5];
        let xq = qv(&x);
        let exp = refnet::eval(&layers, &xq);
        match ts.eval(&xq) {
            TEv::Val(_, v) if v == exp => {}
            o => {
                ev.violation(case, "c18:distilled-function", "", json!({"case": desc, "problem": format!("x={:?}: tree {} vs network {:?}", x, o.brief(), exp.iter().map(|q| q.to_f64()).collect::<Vec<_>>())}));
                return;
            }
        }
    }
    ev.inc("wide_first_layers_distilled");
    let mut h = Hasher::new();
    h.s(&format!("{:?}{:?}", a1.bias, a2.mat));
    ev.nontrivial(h.fin());
}

pub fn run_case(ctx: &Ctx, case: u64, ev: &mut Ev) {
    let mut rng = Rng::derive(ctx.seed, "C18", case);
    rng.big = crate::draw_big(ctx, &mut rng);
    if case % 500 == 3 {
        return run_wide(case, &mut rng, ev);
    }
    if rng.chance(0.75) {
        run_arch(case, &mut rng, ev);
    } else {
        run_npz(case, &mut rng, ev);
    }
}

fn layer_to_l(l: &Layer) -> L {
    match l {
        Layer::Linear(a) => L::Linear(Aff::from_lib(a)),
        Layer::ReLU(i) => L::Relu(*i),
        Layer::LeakyReLU(i, a) => L::Leaky(*i, *a),
        Layer::HardTanh(i) => L::HardTanh(*i),
        Layer::HardSigmoid(i) => L::HardSigmoid(*i),
        Layer::Argmax => L::Argmax,
        Layer::ClassChar(c) => L::ClassChar(*c),
    }
}

fn run_arch(case: u64, rng: &mut Rng, ev: &mut Ev) {
    let in_dim = 1 + rng.below(3);
    let rg = if rng.chance(0.6) { Regime::Int } else { Regime::Dyadic };
    let mut arch = Architecture::new(TensorShape::Flat { in_dim });
    let mut shape = in_dim; // model
    let mut calls: Vec<String> = Vec::new();
    let mut model_ops: Vec<(L, usize)> = Vec::new(); // accepted layers + shape after
    let mut invalid = 0;
    let mut neurons = 0;
    let mut had_argmax = false;
    let n_calls = 1 + rng.below(if rng.big { 14 } else { 9 });
    macro_rules! fail {
        ($sig:expr, $msg:expr) => {{
            ev.violation(case, $sig, "", json!({"in_dim": in_dim, "calls": calls, "problem": $msg}));
            ev.evaluations += 1;
            return;
        }};
    }
    for _ in 0..n_calls {
        if neurons >= if rng.big { 8 } else { 6 } {
            break;
        }
        let r = rng.below(100);
        // (description, expected acceptance, layers appended when accepted, new shape)
        let (desc, res, accepted_model): (String, Result<Result<(), String>, String>, Option<(Vec<L>, usize)>) = if r < 35 {
            // linear, sometimes with a wrong input dimension
            let wrong = rng.chance(0.2);
            let ind = if wrong { shape + 1 + rng.below(2) } else { shape };
            let out = 1 + rng.below(3);
            let a = gen::aff(rng, out, ind, rg);
            let res = lib(case, "Architecture::linear", || arch.linear(a.to_lib()).map_err(|e| format!("{}", e)));
            (format!("linear({}x{})", out, ind), res, if wrong { None } else { Some((vec![L::Linear(a)], out)) })
        } else if r < 60 {
            // partial activation with a possibly invalid index
            let idx = if rng.chance(0.25) { shape + rng.below(2) } else { rng.below(shape) };
            let kind = rng.below(4);
            let alpha = 0.5;
            let res = lib(case, "Architecture::partial_*", || {
                match kind {
                    0 => arch.partial_relu(idx),
                    1 => arch.partial_leaky_relu(idx, alpha),
                    2 => arch.partial_hard_tanh(idx),
                    _ => arch.partial_hard_sigmoid(idx),
                }
                .map_err(|e| format!("{}", e))
            });
            let l = match kind {
                0 => L::Relu(idx),
                1 => L::Leaky(idx, alpha),
                2 => L::HardTanh(idx),
                _ => L::HardSigmoid(idx),
            };
            (format!("partial_{}({})", ["relu", "leaky_relu", "hard_tanh", "hard_sigmoid"][kind], idx), res, if idx < shape { Some((vec![l], shape)) } else { None })
        } else if r < 85 {
            let kind = rng.below(4);
            if neurons + shape > 6 {
                continue;
            }
            let res = lib(case, "Architecture::<activation layer>", || {
                match kind {
                    0 => arch.relu(),
                    1 => arch.leaky_relu(0.25),
                    2 => arch.hard_tanh(),
                    _ => arch.hard_sigmoid(),
                }
                .map_err(|e| format!("{}", e))
            });
            let ls: Vec<L> = (0..shape)
                .map(|i| match kind {
                    0 => L::Relu(i),
                    1 => L::Leaky(i, 0.25),
                    2 => L::HardTanh(i),
                    _ => L::HardSigmoid(i),
                })
                .collect();
            (format!("{}()", ["relu", "leaky_relu", "hard_tanh", "hard_sigmoid"][kind]), res, Some((ls, shape)))
        } else {
            let res = lib(case, "Architecture::argmax", || arch.argmax().map_err(|e| format!("{}", e)));
            had_argmax = true;
            ("argmax()".to_string(), res, if shape >= 2 { Some((vec![L::Argmax], 1)) } else { None })
        };
        let res = match res {
            Ok(r) => r,
            Err(p) => {
                calls.push(desc.clone());
                fail!("c18:builder-call:panic", format!("{} panicked: {}", desc, p));
            }
        };
        calls.push(format!("{} -> {}", desc, if res.is_ok() { "Ok" } else { "Err" }));
        match (&res, &accepted_model) {
            (Ok(()), Some((ls, ns))) => {
                for l in ls {
                    if !matches!(l, L::Linear(_) | L::Argmax) {
                        neurons += 1;
                    }
                    model_ops.push((l.clone(), *ns));
                }
                shape = *ns;
            }
            (Err(_), None) => {
                invalid += 1;
            }
            (Ok(()), None) => fail!("c18:accepted-incompatible-layer", format!("{} was accepted although the current width is {}", desc, shape)),
            (Err(e), Some(_)) => fail!("c18:rejected-compatible-layer", format!("{} was rejected ({}) although the current width is {}", desc, e, shape)),
        }
        // current shape == output dimension of the network built so far
        let TensorShape::Flat { in_dim: cur } = arch.current_shape;
        if cur != shape {
            fail!("c18:current_shape", format!("after {} current_shape is [{}] but the network built so far has output dimension {}", desc, cur, shape));
        }
        if arch.operators.len() != model_ops.len() {
            fail!("c18:operator-count", format!("after {}: {} operators queued, {} accepted", desc, arch.operators.len(), model_ops.len()));
        }
    }
    ev.evaluations += 1;
    if model_ops.is_empty() {
        return;
    }
    // recorded per-operator shapes
    for (k, ((_, s), (_, ms))) in arch.operators.iter().zip(model_ops.iter()).enumerate() {
        let TensorShape::Flat { in_dim: rec } = *s;
        if rec != *ms {
            fail!("c18:recorded-shape", format!("operator {} is recorded with shape [{}] but the output dimension after it is {}", k, rec, ms));
        }
    }
    // ---- every accepted architecture distills without a panic and computes the reference network
    let layers_ref: Vec<L> = model_ops.iter().map(|m| m.0.clone()).collect();
    let whole = match lib(case, "afftree_from_layers(architecture)", || afftree_from_layers(in_dim, arch.operators(), None)) {
        Ok(t) => t,
        Err(p) => fail!("c18:distill:panic", format!("accepted architecture panics during distillation: {}", p)),
    };
    let ws = snap(&whole);
    let exact = !refnet::has_inexact_op(&layers_ref);
    let pts = {
        let mut v = gen::lattice(rng, in_dim, 3, 1.0, 60);
        v.extend(gen::lattice(rng, in_dim, 4, 0.5, 40));
        v
    };
    for x in &pts {
        let xq = qv(x);
        let exp = refnet::eval(&layers_ref, &xq);
        match ws.eval(&xq) {
            TEv::Val(_, v) => {
                let ok = v.len() == exp.len() && v.iter().zip(exp.iter()).all(|(a, b)| if exact { a == b } else { (a.to_f64() - b.to_f64()).abs() < 1e-9 * (1.0 + b.to_f64().abs()) });
                if !ok && (exact || refnet::min_margin(&layers_ref, &xq) > 1e-6) {
                    fail!("c18:distilled-function", format!("x={:?}: tree {:?} vs network {:?}", x, v.iter().map(|q| q.to_f64()).collect::<Vec<_>>(), exp.iter().map(|q| q.to_f64()).collect::<Vec<_>>()));
                }
            }
            o => fail!("c18:distilled-undefined", format!("x={:?}: {}", x, o.brief())),
        }
    }
    // ---- every split point
    let nops = model_ops.len();
    for k in 1..nops {
        let a1 = match lib(case, "extract_range(0,k)", || arch.extract_range(0, k).map_err(|e| format!("{}", e))) {
            Ok(Ok(a)) => a,
            Ok(Err(e)) => fail!("c18:extract_range:err", format!("extract_range(0,{}) failed: {}", k, e)),
            Err(p) => fail!("c18:extract_range:panic", p),
        };
        let a2 = match lib(case, "extract_range(k,n)", || arch.extract_range(k, nops).map_err(|e| format!("{}", e))) {
            Ok(Ok(a)) => a,
            Ok(Err(e)) => fail!("c18:extract_range:err", format!("extract_range({},{}) failed: {}", k, nops, e)),
            Err(p) => fail!("c18:extract_range:panic", p),
        };
        let mid = model_ops[k - 1].1;
        let TensorShape::Flat { in_dim: a1_in } = a1.input_shape;
        let TensorShape::Flat { in_dim: a1_out } = a1.current_shape;
        let TensorShape::Flat { in_dim: a2_in } = a2.input_shape;
        let TensorShape::Flat { in_dim: a2_out } = a2.current_shape;
        if a1.operators.len() != k || a2.operators.len() != nops - k || a1_in != in_dim || a1_out != mid || a2_in != mid || a2_out != shape {
            fail!(
                "c18:extract_range:shape",
                format!("split at {}: part 1 has {} ops [{}]->[{}], part 2 has {} ops [{}]->[{}]; expected {} ops [{}]->[{}] and {} ops [{}]->[{}]", k, a1.operators.len(), a1_in, a1_out, a2.operators.len(), a2_in, a2_out, k, in_dim, mid, nops - k, mid, shape)
            );
        }
        let t1 = match lib(case, "afftree_from_layers(part 1)", || afftree_from_layers(in_dim, a1.operators(), None)) {
            Ok(t) => t,
            Err(p) => fail!("c18:split:distill:panic", format!("part 1 of split {}: {}", k, p)),
        };
        let t2 = match lib(case, "afftree_from_layers(part 2)", || afftree_from_layers(mid, a2.operators(), None)) {
            Ok(t) => t,
            Err(p) => fail!("c18:split:distill:panic", format!("part 2 of split {}: {}", k, p)),
        };
        let mut h = t1.clone();
        if let Err(p) = lib(case, "compose(split parts)", || h.compose::<false, false>(&t2)) {
            fail!("c18:split:compose:panic", format!("split {}: {}", k, p));
        }
        let hs = snap(&h);
        for x in pts.iter().take(50) {
            let xq = qv(x);
            let a = ws.eval(&xq);
            let b = hs.eval(&xq);
            let ok = match (&a, &b) {
                (TEv::Val(_, va), TEv::Val(_, vb)) => va.len() == vb.len() && va.iter().zip(vb.iter()).all(|(p, q)| if exact { p == q } else { (p.to_f64() - q.to_f64()).abs() < 1e-9 * (1.0 + q.to_f64().abs()) }),
                (TEv::Undef(..), TEv::Undef(..)) => true,
                _ => false,
            };
            if !ok && (exact || refnet::min_margin(&layers_ref, &xq) > 1e-6) {
                fail!("c18:split:function", format!("split at {}: x={:?}: whole {} vs composed parts {}", k, x, a.brief(), b.brief()));
            }
        }
        ev.inc("split_points_checked");
    }
    ev.inc("architectures_distilled");
    if invalid > 0 {
        ev.inc("sequences_with_rejected_calls");
    }
    if had_argmax {
        ev.inc("sequences_with_argmax_call");
    }
    if invalid > 0 || had_argmax {
        let mut h = Hasher::new();
        for c in &calls {
            h.s(c);
        }
        ev.nontrivial(h.fin());
    }
    if ev.want_sample() {
        ev.sample(json!({"in_dim": in_dim, "calls": calls}));
    }
}

fn run_npz(case: u64, rng: &mut Rng, ev: &mut Ev) {
    // written layer list in the shipped dialect
    let mut entries: Vec<(String, Option<(Array2<f64>, Array1<f64>)>)> = Vec::new();
    let mut expect: Vec<L> = Vec::new();
    let mut dim = 1 + rng.below(6);
    let in_dim = dim;
    let many = rng.chance(0.3);
    let n_groups = 1 + rng.below(if many { 30 } else { 8 });
    let mut idx = 0usize;
    let full = rng.chance(0.3);
    for _ in 0..n_groups {
        let w = 1 + rng.below(6);
        let a = gen::aff(rng, w, dim, if full { Regime::Full } else { Regime::Short });
        entries.push((format!("{:03}.linear", idx), Some((gen::arr2(&a.mat, dim), Array1::from(a.bias.clone())))));
        expect.push(L::Linear(a));
        dim = w;
        idx += 1;
        let act = rng.below(5);
        if act < 3 {
            let name = ["relu", "hard_tanh", "hard_sigmoid"][act];
            entries.push((format!("{:03}.{}", idx, name), None));
            for i in 0..dim {
                expect.push(match act {
                    0 => L::Relu(i),
                    1 => L::HardTanh(i),
                    _ => L::HardSigmoid(i),
                });
            }
            idx += 1;
        }
    }
    ev.evaluations += 1;
    let dir = crate::util::workdir();
    let path = dir.join(format!("c18-{}-{}.npz", std::process::id(), case));
    let with_layers_entry = rng.chance(0.5);
    let mut shuffled = entries.clone();
    rng.shuffle(&mut shuffled); // the order inside the archive must not matter
    let write = || -> Result<(), String> {
        let f = std::fs::File::create(&path).map_err(|e| e.to_string())?;
        let mut w = NpzWriter::new(f);
        if with_layers_entry {
            w.add_array("000.layers.npy", &Array1::from(vec![idx as i64])).map_err(|e| e.to_string())?;
        }
        for (name, data) in shuffled.iter() {
            match data {
                Some((m, b)) => {
                    w.add_array(format!("{}.weights.npy", name), m).map_err(|e| e.to_string())?;
                    w.add_array(format!("{}.bias.npy", name), b).map_err(|e| e.to_string())?;
                }
                None => {
                    w.add_array(format!("{}.npy", name), &Array1::from(vec![0.0f64])).map_err(|e| e.to_string())?;
                }
            }
        }
        w.finish().map_err(|e| e.to_string())?;
        Ok(())
    };
    if let Err(e) = write() {
        ev.skip(&format!("could not write npz: {}", e));
        let _ = std::fs::remove_file(&path);
        return;
    }
    let res = lib(case, "read_layers", || read_layers(&path).map_err(|e| format!("{}", e)));
    let _ = std::fs::remove_file(&path);
    let names: Vec<String> = entries.iter().map(|e| e.0.clone()).collect();
    let desc = json!({"entries": names, "in_dim": in_dim, "with_layers_entry": with_layers_entry});
    let layers = match res {
        Ok(Ok(l)) => l,
        Ok(Err(e)) => {
            ev.violation(case, "c18:read_layers:err", "", json!({"case": desc, "error": e}));
            return;
        }
        Err(p) => {
            ev.violation(case, "c18:read_layers:panic", "", json!({"case": desc, "panic": p}));
            return;
        }
    };
    let got: Vec<L> = layers.iter().map(layer_to_l).collect();
    if got.len() != expect.len() {
        ev.violation(case, "c18:read_layers:count", "", json!({"case": desc, "problem": format!("{} layers read, {} expected (one activation per neuron of the preceding linear layer)", got.len(), expect.len())}));
        return;
    }
    for (k, (g, e)) in got.iter().zip(expect.iter()).enumerate() {
        let same = match (g, e) {
            (L::Linear(a), L::Linear(b)) => crate::snap::bits_eq_mat(&a.mat, &b.mat) && crate::snap::bits_eq(&a.bias, &b.bias),
            (L::Relu(i), L::Relu(j)) | (L::HardTanh(i), L::HardTanh(j)) | (L::HardSigmoid(i), L::HardSigmoid(j)) => i == j,
            _ => false,
        };
        if !same {
            ev.violation(case, "c18:read_layers:layer", "", json!({"case": desc, "problem": format!("layer {} read as {:?} but {:?} was written", k, g, e)}));
            return;
        }
    }
    ev.inc("npz_files_roundtripped");
    ev.count("npz_layers_compared", got.len() as u64);
    if entries.len() >= 11 {
        ev.inc("npz_files_with_11_or_more_entries");
        let mut h = Hasher::new();
        h.s(&desc.to_string());
        for l in &expect {
            if let L::Linear(a) = l {
                h.f(a.bias[0]);
            }
        }
        ev.nontrivial(h.fin());
    }
}
