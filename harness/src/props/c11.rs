//! C11 — pruning is fail-safe when the LP solver misbehaves.
//!
//! For every generated case the fault-free run is logged through the hook (N LP calls); then EVERY
//! single-fault plan (call index x {Error, Unbounded, witness perturbed by 1e-6, witness moved by
//! 1e3, witness moved by 1e12 (beyond what the repair heuristic can fix)}) is executed, followed by random multi-fault plans and all-calls-faulty plans. Oracle under
//! each plan: no panic, function unchanged on thick cells, caches sound (C05 oracle), tree
//! well-formed, removed-node audit (C03 oracle).

use super::c03::{audit_removed, tree_with_history};
use super::c05::caches_sound;
use super::common::*;
use super::hist::{self, Op};
use crate::ev::{Ev, Hasher};
use crate::gen::{self, Regime, TreeCfg};
use crate::lpx::Band;
use crate::q::qv;
use crate::rng::Rng;
use crate::snap::{snap, Ev as TEv, Snap};
use crate::util::{lib, panic_sig};
use crate::Ctx;
use affinitree::pwl::afftree::AffTree;
use affinitree::verif::{arm, disarm, LpEvent, LpFault};
use serde_json::{json, Value};
use std::collections::HashMap;

#[derive(Clone, Copy, PartialEq, Debug)]
enum Kind {
    Elim,
    Compose,
    Add,
}

fn fault_name(f: &LpFault) -> String {
    match f {
        LpFault::Error => "Error".into(),
        LpFault::Unbounded => "Unbounded".into(),
        LpFault::PerturbWitness(e) => format!("PerturbWitness({:e})", e),
        LpFault::FarWitness(e) => format!("FarWitness({:e})", e),
    }
}

fn kinds() -> Vec<LpFault> {
    vec![LpFault::Error, LpFault::Unbounded, LpFault::PerturbWitness(1e-6), LpFault::FarWitness(1e3), LpFault::FarWitness(1e12)]
}

/// inputs of the reference tree on which the result must agree (thick cells only)
fn asserted_inputs(reference: &Snap, rng: &mut Rng, ev: &mut Ev) -> Vec<Vec<f64>> {
    let mut out = Vec::new();
    let mut thick: std::collections::BTreeSet<(usize, Option<usize>)> = Default::default();
    if let Ok(cs) = cells(reference) {
        for c in cs {
            if let Ok((Band::Thick, Some(x), _)) = classify_cell(&c.sys) {
                thick.insert((c.node, c.missing));
                out.push(x);
            }
        }
    }
    for x in gen::probes(rng, &[reference], reference.in_dim, 24) {
        let end = match reference.eval(&qv(&x)) {
            TEv::Val(n, _) => (n, None),
            TEv::Undef(n, l) => (n, Some(l)),
            TEv::Broken(_) => continue,
        };
        if thick.contains(&end) {
            out.push(x);
        } else {
            ev.skip("probe input ends in a thin cell of the reference (S5)");
        }
    }
    out
}

fn same_on(reference: &Snap, after: &Snap, xs: &[Vec<f64>]) -> Result<(), String> {
    for x in xs {
        let xq = qv(x);
        let a = reference.eval(&xq);
        let b = after.eval(&xq);
        let ok = match (&a, &b) {
            (TEv::Val(_, va), TEv::Val(_, vb)) => va == vb,
            (TEv::Undef(..), TEv::Undef(..)) => true,
            _ => false,
        };
        if !ok {
            return Err(format!("x={:?}: reference {} but result under faults {}", x, a.brief(), b.brief()));
        }
    }
    Ok(())
}

struct Outcome {
    after: Snap,
    log: Vec<LpEvent>,
    calls: usize,
}

pub fn run_case(ctx: &Ctx, case: u64, ev: &mut Ev) {
    let mut rng = Rng::derive(ctx.seed, "C11", case);
    let kind = match rng.below(10) {
        0..=4 => Kind::Elim,
        5..=7 => Kind::Compose,
        _ => Kind::Add,
    };
    // ---- generate the case
    let (f, hist_desc) = match tree_with_history(&mut rng, case, ev, kind == Kind::Add) {
        Some(x) => x,
        None => return,
    };
    let fs = snap(&f);
    if fs.nodes.len() > 120 {
        ev.skip("case too large for exhaustive fault enumeration");
        return;
    }
    let out_dim = match fs.wf_aff(None) {
        Ok(d) => d,
        Err(_) => return,
    };
    let rg = Regime::Int;
    let g: Option<AffTree<2>> = match kind {
        Kind::Elim => None,
        Kind::Compose => {
            let od = 1 + rng.below(2);
            let mut cg = TreeCfg::basic(2, out_dim, od, rg);
            cg.max_depth = 1 + rng.below(2);
            cg.p_missing = if rng.chance(0.4) { 0.3 } else { 0.0 };
            let gs = gen::spec(&mut rng, &cg);
            Some(gen::build::<2>(&gs, &mut rng, false))
        }
        Kind::Add => {
            let mut cb = TreeCfg::basic(2, fs.in_dim, out_dim, rg);
            cb.max_depth = 1 + rng.below(2);
            cb.p_missing = if rng.chance(0.5) { 0.3 } else { 0.0 };
            let bs = gen::spec(&mut rng, &cb);
            Some(gen::build::<2>(&bs, &mut rng, false))
        }
    };
    let gsn = g.as_ref().map(snap);
    let desc = json!({"kind": format!("{:?}", kind), "history_of_f": hist_desc, "f": fs.to_json(), "g": gsn.as_ref().map(|s| s.to_json())});

    // reference for the functional comparison
    let reference: Snap = match kind {
        Kind::Elim | Kind::Add => fs.clone(),
        Kind::Compose => {
            let mut hu = f.clone();
            if lib(case, "compose::<false>", || hu.compose::<false, false>(g.as_ref().unwrap())).is_err() {
                ev.skip("unpruned composition panicked (C04's subject)");
                return;
            }
            snap(&hu)
        }
    };
    let xs = if kind == Kind::Add { Vec::new() } else { asserted_inputs(&reference, &mut rng, ev) };
    let add_pts = if kind == Kind::Add { gen::probes(&mut rng, &[&fs, gsn.as_ref().unwrap()], fs.in_dim, 30) } else { Vec::new() };
    let add_op = Op::ArithTree(gen::Spec::T(gen::Aff::identity(1)), false, 0);
    let add_operand = hist::Operand {
        tree: None,
        snap: gsn.clone(),
    };

    let execute = |plan: HashMap<usize, LpFault>, all: Option<LpFault>| -> Result<Outcome, String> {
        arm(plan, all, true);
        let r = lib(case, &format!("{:?} under fault plan", kind), || match kind {
            Kind::Elim => {
                let mut t = f.clone();
                t.infeasible_elimination();
                t
            }
            Kind::Compose => {
                let mut t = f.clone();
                t.compose::<true, false>(g.as_ref().unwrap());
                t
            }
            Kind::Add => &f + g.as_ref().unwrap(),
        });
        let (calls, log) = disarm();
        r.map(|t| Outcome {
            after: snap(&t),
            log,
            calls,
        })
    };
    let check = |o: &Outcome, ev: &mut Ev, deep: bool| -> Result<(), (String, String)> {
        o.after.wf_tree().map_err(|e| ("malformed".to_string(), e))?;
        caches_sound(&o.after, ev).map(|_| ()).map_err(|(s, m)| (format!("cache:{}", s), m))?;
        match kind {
            Kind::Elim => {
                audit_removed(&fs, &o.after, ev).map_err(|(s, m)| (format!("audit:{}", s), m))?;
                same_on(&reference, &o.after, &xs).map_err(|m| ("function".to_string(), m))?;
            }
            Kind::Compose => {
                same_on(&reference, &o.after, &xs).map_err(|m| ("function".to_string(), m))?;
            }
            Kind::Add => {
                hist::check_step(&add_op, &fs, &o.after, &add_operand, &add_pts, ev).map_err(|m| ("function".to_string(), m))?;
            }
        }
        if deep && kind != Kind::Add {
            compare_pruned(&reference, &o.after, &[], ev).map_err(|(s, m)| (format!("function:{}", s), m))?;
        }
        Ok(())
    };

    ev.evaluations += 1;
    // ---- fault-free run
    let base = match execute(HashMap::new(), None) {
        Ok(o) => o,
        Err(p) => {
            ev.skip(&format!("fault-free run panicked (C03/C04's subject): {}", panic_sig(&p)));
            return;
        }
    };
    if let Err((sig, msg)) = check(&base, ev, true) {
        ev.skip(&format!("fault-free run already disagrees (C03's subject): {} {}", sig, &msg[..msg.len().min(80)]));
        return;
    }
    let n = base.calls;
    ev.count("lp_calls_in_fault_free_runs", n as u64);
    if n == 0 {
        ev.inc("cases_without_lp_calls");
        return;
    }
    let base_terms = base.after.terminals().len();
    let mut effective = 0usize;
    let mut plans_run = 0usize;
    let report = |ev: &mut Ev, plan_desc: Value, sig: String, msg: String, o: Option<&Outcome>| {
        ev.violation(
            case,
            &format!("c11:{:?}:{}", kind, sig),
            "",
            json!({"case": desc, "fault_plan": plan_desc, "problem": msg, "result": o.map(|o| o.after.to_json())}),
        );
    };
    // ---- every single-fault plan
    for i in 0..n {
        for k in kinds() {
            let mut plan = HashMap::new();
            plan.insert(i, k.clone());
            let pd = json!({"single_fault": {"call": i, "fault": fault_name(&k)}});
            match execute(plan, None) {
                Err(p) => {
                    report(ev, pd, format!("panic:{}", panic_sig(&p)), p, None);
                    return;
                }
                Ok(o) => {
                    plans_run += 1;
                    if o.log.iter().any(|e| e.fault.is_some() && e.returned != e.real) {
                        effective += 1;
                    }
                    if let Err((sig, msg)) = check(&o, ev, (i + plans_run) % 5 == 0) {
                        report(ev, pd, sig, msg, Some(&o));
                        return;
                    }
                    if o.after.terminals().len() >= base_terms {
                        ev.inc("plans_with_no_more_pruning_than_fault_free");
                    } else {
                        ev.inc("plans_with_fewer_terminals_than_fault_free");
                        if std::env::var("VMON_DEBUG_FEWER").is_ok() {
                            eprintln!("FEWER case={} plan={} base_terms={} now={}\nBASE={}\nNOW={}", case, pd, base_terms, o.after.terminals().len(), base.after.to_json(), o.after.to_json());
                            for e in o.log.iter() {
                                eprintln!("  call {} fault {:?} real {:?} returned {:?}", e.index, e.fault, e.real, e.returned);
                            }
                        }
                    }
                }
            }
        }
    }
    // ---- random multi-fault plans and all-calls-faulty plans
    for _ in 0..6 {
        let mut plan = HashMap::new();
        let cnt = 2 + rng.below(n.max(2));
        for _ in 0..cnt {
            plan.insert(rng.below(n + 2), rng.pick(&kinds()).clone());
        }
        let pd = json!({"multi_fault": plan.iter().map(|(k, v)| json!([k, fault_name(v)])).collect::<Vec<_>>()});
        match execute(plan, None) {
            Err(p) => {
                report(ev, pd, format!("panic:{}", panic_sig(&p)), p, None);
                return;
            }
            Ok(o) => {
                plans_run += 1;
                if o.log.iter().any(|e| e.fault.is_some() && e.returned != e.real) {
                    effective += 1;
                }
                if let Err((sig, msg)) = check(&o, ev, true) {
                    report(ev, pd, sig, msg, Some(&o));
                    return;
                }
            }
        }
    }
    for k in kinds() {
        let pd = json!({"all_calls": fault_name(&k)});
        match execute(HashMap::new(), Some(k.clone())) {
            Err(p) => {
                report(ev, pd, format!("panic:{}", panic_sig(&p)), p, None);
                return;
            }
            Ok(o) => {
                plans_run += 1;
                if o.log.iter().any(|e| e.fault.is_some() && e.returned != e.real) {
                    effective += 1;
                }
                if let Err((sig, msg)) = check(&o, ev, true) {
                    report(ev, pd, sig, msg, Some(&o));
                    return;
                }
            }
        }
    }
    ev.count("fault_plans_executed", plans_run as u64);
    ev.count("fault_plans_that_changed_an_answer", effective as u64);
    ev.inc(&format!("cases_{:?}", kind));
    if effective > 0 {
        let mut h = Hasher::new();
        h.s(&format!("{:?}", kind));
        h.u(fs.structural_hash());
        if let Some(gs) = &gsn {
            h.u(gs.structural_hash());
        }
        ev.nontrivial(h.fin());
    }
    if ev.want_sample() {
        ev.sample(json!({"kind": format!("{:?}", kind), "lp_calls_in_fault_free_run": n, "fault_plans_executed": plans_run, "plans_that_changed_an_answer": effective,
            "example_plans": [{"single_fault": {"call": 0, "fault": "Error"}}, {"single_fault": {"call": n - 1, "fault": "FarWitness(1e12)"}}, {"all_calls": "Unbounded"}],
            "history_of_f": hist_desc, "f": fs.to_json(), "g": gsn.as_ref().map(|s| s.to_json())}));
    }
}
