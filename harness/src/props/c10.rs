//! C10 — the LP layer classifies polytopes and optimises correctly.
//!
//! Oracle: exact simplex with verified certificates (lpx). Workloads: (a) generated systems of
//! every special class, (b) Chebyshev-centre programs with rational data, (c) online: every LP the
//! library solves while pruning / distilling, logged through the hook and refereed offline.

use super::c15::{minilp_says_unbounded, K1_KEY};
use crate::ev::{Ev, Hasher};
use crate::gen::{self, arr1, Aff, Regime};
use crate::lpx::{self, Band, Opt, Sys};
use crate::q::{dot, qv, Q};
use crate::rng::Rng;
use crate::util::lib;
use crate::Ctx;
use affinitree::linalg::polyhedron::PolytopeStatus;
use serde_json::{json, Value};

pub enum Verdict {
    Ok(&'static str),
    Skip(&'static str),
    /// (signature, known-finding key or "", message)
    Bad(String, String, String),
}

fn scale_of(row: &[f64], x: &[f64], b: f64) -> f64 {
    1.0 + b.abs() + row.iter().zip(x.iter()).map(|(a, v)| (a * v).abs()).sum::<f64>()
}

/// Referee one LP answer of the library: `min cost.x s.t. mat x <= bias`.
pub fn referee(mat: &[Vec<f64>], bias: &[f64], cost: &[f64], answer: &PolytopeStatus) -> Verdict {
    let n = cost.len();
    let mut sys = Sys::new(n);
    for (r, b) in mat.iter().zip(bias.iter()) {
        if r.len() != n {
            return Verdict::Skip("dimension mismatch in log");
        }
        sys.push_f64(r, *b);
    }
    let zero_obj = cost.iter().all(|v| *v == 0.0);
    let (band, slack) = match lpx::classify(&sys) {
        Ok(x) => x,
        Err(_) => return Verdict::Skip("oracle-error"),
    };
    let class = match band {
        Band::Thick => "thick",
        Band::Thin => "thin",
        Band::Empty => "empty",
    };
    let witness_ok = |w: &[f64]| -> Result<(), String> {
        if w.len() != n || w.iter().any(|v| !v.is_finite()) {
            return Err(format!("witness {:?} has wrong length or non-finite entries", w));
        }
        let wq = qv(w);
        // the solver's error on a vertex lying far out couples all rows: a row with small coefficients on the
        // large coordinates has a small activity of its own, so the tolerance also carries 1e-9 |a|_inf |w|_inf
        let wmax = w.iter().fold(0.0f64, |a, v| a.max(v.abs()));
        for (i, (r, b)) in mat.iter().zip(bias.iter()).enumerate() {
            let s = Q::from_f64(*b).sub(&dot(&qv(r), &wq)).to_f64();
            let amax = r.iter().fold(0.0f64, |a, v| a.max(v.abs()));
            if s < -(1e-6 * scale_of(r, w, *b) + 1e-9 * amax * wmax) {
                return Err(format!("witness {:?} violates row {} ({:?} <= {}) by {}", w, i, r, b, -s));
            }
        }
        Ok(())
    };
    match answer {
        PolytopeStatus::Error(_) => Verdict::Skip("library reported a solver error"),
        PolytopeStatus::Infeasible => {
            if band == Band::Thick {
                Verdict::Bad(
                    "c10:false-infeasible".into(),
                    "".into(),
                    format!("reported Infeasible but the set is non-empty by a margin (uniform slack {} at {:?})", slack.t.to_f64(), slack.x.iter().map(|q| q.to_f64()).collect::<Vec<_>>()),
                )
            } else if band == Band::Thin {
                Verdict::Skip("thin set: either answer allowed")
            } else {
                Verdict::Ok("infeasible")
            }
        }
        PolytopeStatus::Optimal(w) => {
            let w = w.to_vec();
            if band == Band::Empty {
                return Verdict::Bad("c10:optimal-on-empty-set".into(), "".into(), format!("reported Optimal({:?}) but the set is empty by a margin (uniform slack {})", w, slack.t.to_f64()));
            }
            if let Err(e) = witness_ok(&w) {
                return Verdict::Bad("c10:witness-outside".into(), "".into(), e);
            }
            if band == Band::Thin {
                return Verdict::Ok("thin-set-witness-inside-tolerance");
            }
            if zero_obj {
                return Verdict::Ok(if class == "thick" { "feasible-witness" } else { "feasible" });
            }
            match lpx::minimize(&sys, &qv(cost)) {
                Ok(Opt::Optimal { value, .. }) => {
                    let v = value.to_f64();
                    let got = dot(&qv(cost), &qv(&w)).to_f64();
                    let tol = 1e-6 * (1.0 + v.abs() + cost.iter().zip(w.iter()).map(|(c, x)| (c * x).abs()).sum::<f64>());
                    if got > v + tol {
                        Verdict::Bad("c10:suboptimal".into(), "".into(), format!("Optimal({:?}) has objective {} but the exact minimum is {}", w, got, v))
                    } else if got < v - tol {
                        Verdict::Bad("c10:better-than-optimal".into(), "".into(), format!("Optimal({:?}) has objective {} below the exact minimum {} (point cannot be feasible)", w, got, v))
                    } else {
                        Verdict::Ok("optimal")
                    }
                }
                Ok(Opt::Unbounded { .. }) => Verdict::Bad("c10:optimal-on-unbounded".into(), "".into(), format!("reported Optimal({:?}) but the objective is unbounded below", w)),
                Ok(Opt::Infeasible(_)) => Verdict::Skip("thin set: either answer allowed"),
                Err(_) => Verdict::Skip("oracle-error"),
            }
        }
        PolytopeStatus::Unbounded => {
            if band == Band::Empty {
                return Verdict::Bad("c10:unbounded-on-empty-set".into(), "".into(), format!("reported Unbounded but the set is empty by a margin (uniform slack {})", slack.t.to_f64()));
            }
            if band == Band::Thin {
                return Verdict::Skip("thin set: either answer allowed");
            }
            match lpx::minimize(&sys, &qv(cost)) {
                Ok(Opt::Unbounded { .. }) => Verdict::Ok("unbounded"),
                Ok(Opt::Optimal { value, x, .. }) => {
                    let k1 = !zero_obj && minilp_says_unbounded(mat, bias, cost);
                    Verdict::Bad(
                        "c10:false-unbounded".into(),
                        if k1 { K1_KEY.into() } else { "".into() },
                        format!("reported Unbounded but the minimum exists: {} at {:?} (minilp called directly says unbounded: {})", value.to_f64(), x.iter().map(|q| q.to_f64()).collect::<Vec<_>>(), k1),
                    )
                }
                Ok(Opt::Infeasible(_)) => Verdict::Skip("thin set: either answer allowed"),
                Err(_) => Verdict::Skip("oracle-error"),
            }
        }
    }
}

fn gen_system(rng: &mut Rng, n: usize) -> (Aff, &'static str) {
    let rg = match rng.below(10) {
        0..=4 => Regime::Int,
        5..=7 => Regime::Dyadic,
        _ => Regime::Short,
    };
    let class = *rng.pick(&["box+cuts", "cone", "slab", "halfspaces", "empty-margin", "empty-barely", "lower-dim", "zero-rows", "duplicates", "no-rows", "random"]);
    let mut rows: Vec<(Vec<f64>, f64)> = Vec::new();
    let unit = |j: usize, s: f64| -> Vec<f64> {
        let mut r = vec![0.0; n];
        r[j] = s;
        r
    };
    match class {
        "box+cuts" => {
            for j in 0..n {
                rows.push((unit(j, 1.0), rng.int(1, 4) as f64));
                rows.push((unit(j, -1.0), rng.int(1, 4) as f64));
            }
            for _ in 0..rng.below(4) {
                rows.push((gen::nonzero_row(rng, n, rg), gen::coef(rng, rg) + 2.0));
            }
        }
        "cone" => {
            for _ in 0..(n + rng.below(3)) {
                rows.push((gen::nonzero_row(rng, n, rg), 0.0));
            }
        }
        "slab" => {
            let r = gen::nonzero_row(rng, n, rg);
            rows.push((r.clone(), 1.0));
            rows.push((r.iter().map(|v| -v).collect(), 1.0));
            if rng.chance(0.5) && n > 1 {
                rows.push((gen::nonzero_row(rng, n, rg), 2.0));
            }
        }
        "halfspaces" => {
            for _ in 0..(1 + rng.below(n + 1)) {
                rows.push((gen::nonzero_row(rng, n, rg), gen::coef(rng, rg)));
            }
        }
        "empty-margin" => {
            let r = gen::nonzero_row(rng, n, rg);
            rows.push((r.clone(), -1.0));
            rows.push((r.iter().map(|v| -v).collect(), -1.0));
            for _ in 0..rng.below(3) {
                rows.push((gen::nonzero_row(rng, n, rg), 3.0));
            }
        }
        "empty-barely" => {
            // empty by a tiny gap: thin band, either answer allowed (counted as skipped)
            let r = gen::nonzero_row(rng, n, rg);
            rows.push((r.clone(), 1.0));
            rows.push((r.iter().map(|v| -v).collect(), -1.0 - 1e-9));
        }
        "lower-dim" => {
            let r = gen::nonzero_row(rng, n, rg);
            let b = gen::coef(rng, rg);
            rows.push((r.clone(), b));
            rows.push((r.iter().map(|v| -v).collect(), -b));
            for j in 0..n {
                rows.push((unit(j, 1.0), 5.0));
                rows.push((unit(j, -1.0), 5.0));
            }
        }
        "zero-rows" => {
            for j in 0..n {
                rows.push((unit(j, 1.0), 2.0));
                if rng.chance(0.7) {
                    rows.push((unit(j, -1.0), 2.0));
                }
            }
            rows.push((vec![0.0; n], *rng.pick(&[1.0, 0.0, -1.0, 0.12, -0.12])));
            if rng.chance(0.3) {
                rows.push((vec![-0.0; n], 0.0));
            }
        }
        "duplicates" => {
            for _ in 0..(1 + rng.below(3)) {
                let r = gen::nonzero_row(rng, n, rg);
                let b = gen::coef(rng, rg) + 1.0;
                rows.push((r.clone(), b));
                rows.push((r.clone(), b));
                rows.push((r.iter().map(|v| v * 2.0).collect(), b * 2.0 + if rng.chance(0.5) { 1.0 } else { 0.0 }));
            }
        }
        "no-rows" => {
            rows.push((vec![0.0; n], 1.0));
        }
        _ => {
            for _ in 0..(1 + rng.below(9)) {
                rows.push((gen::nonzero_row(rng, n, rg), gen::coef(rng, rg) + if rng.chance(0.5) { 1.0 } else { 0.0 }));
            }
        }
    }
    rng.shuffle(&mut rows);
    (
        Aff {
            mat: rows.iter().map(|r| r.0.clone()).collect(),
            bias: rows.iter().map(|r| r.1).collect(),
        },
        class,
    )
}

fn handle(v: Verdict, case: u64, ev: &mut Ev, what: &str, desc: &Value, answer: &PolytopeStatus) -> bool {
    match v {
        Verdict::Ok(k) => {
            ev.inc(&format!("refereed_{}", k));
            true
        }
        Verdict::Skip(r) => {
            ev.skip(r);
            true
        }
        Verdict::Bad(sig, key, msg) => {
            ev.violation(case, &format!("{}:{}", sig, what), &key, json!({"case": desc, "call": what, "library_answer": format!("{:?}", answer), "problem": msg}));
            !key.is_empty()
        }
    }
}

/// LP instances on which minilp 0.2.2 panics (unwrap of SingularMatrix, solver.rs:1301); found by C04's
/// thorough histories (seed 1, cases 39494, 58860, 179807) and repaired in /repo by 4403581: the answer
/// must be a status, never an unwinding panic. All three are empty by a margin (exact slack about -1).
fn regression_instances() -> Vec<Aff> {
    vec![
        Aff {
            mat: vec![
                vec![-0.75, -1.25, 4.0, -4.0],
                vec![36.0, 6.0, -3.75, 14.0],
                vec![-73.0, -16.0, 14.25, -33.5],
                vec![73.0, 16.0, -14.25, 33.5],
                vec![-151.25, 4.8125, -47.5, -20.625],
                vec![0.0, -3.125, 0.0, 0.0],
                vec![2386462.03125, -75860.0390625, 749471.25, 325403.203125],
                vec![-433902.1875, 13792.734375, -136267.5, -59164.21875],
            ],
            bias: vec![-2.5, -13.0, 17.75, -16.75, -6.125, -2.625, 20648.5859375, -3755.515625],
        },
        Aff {
            mat: vec![
                vec![1.0, 1.5, -0.0, -0.0],
                vec![-1.0, -1.5, 1.0, -1.5],
                vec![1.75, 0.75, 0.5, -3.0],
                vec![0.5, -0.0, -2.0, -0.0],
                vec![1.23046875, -0.703125, -5.625, -0.703125],
                vec![-114127.67018127441, 65229.775817871094, 521694.45654296875, 65206.775817871094],
                vec![114127.67018127441, -65229.775817871094, -521694.45654296875, -65206.775817871094],
                vec![-468915.8622665405, 268009.296295166, 2143483.745361328, 267914.796295166],
            ],
            bias: vec![-3.5, 0.5, -2.0, -1.5, -13.2109375, 977723.5356750488, -977722.5356750488, 4017159.798751831],
        },
        Aff {
            mat: vec![
                vec![15.0, 5.0, 1.5, 8.25],
                vec![20.0, 12.0, 2.0, 3.0],
                vec![22.0, 6.25, 10.125, 19.1875],
                vec![1.0, 1.65625, -0.796875, 3.5546875],
                vec![1028.0, 344.1875, 425.34375, 998.515625],
                vec![-51.0, -134.78125, 86.734375, -279.6484375],
                vec![175.75, 140.21875, -2.765625, 334.1015625],
                vec![21510.0, 8472.1875, 7764.84375, 23377.265625],
                vec![-10082.8125, -3971.337890625, -3639.7705078125, -10958.09326171875],
                vec![-25207.03125, -9928.3447265625, -9099.42626953125, -27395.233154296875],
            ],
            bias: vec![-6.0, -13.0, -21.25, -0.03125, -1181.6875, -135.84375, -68.71875, -22585.9375, 10588.095703125, 26466.4580078125],
        },
    ]
}

/// A feasible system (x = (2, 131072) has slack >= 1 in every row) that `status()` reported Infeasible
/// before /repo "fix: as_linprog scales every row ..." (found by C03 with large-weight compositions, quick
/// seed 1 case 5768: the branch was pruned and the function changed).
fn regression_feasible() -> Vec<Aff> {
    vec![Aff {
        mat: vec![vec![1.0, 0.0], vec![-1.0, -3.0517578125e-05], vec![1.0, 0.0], vec![0.0, -13184.0]],
        bias: vec![3.0, -5.0, 3.0, -140480.0],
    }]
}

fn run_regressions(case: u64, ev: &mut Ev) {
    for (k, p) in regression_feasible().iter().enumerate() {
        let n = p.indim();
        let desc = json!({"class": "regression: false Infeasible on rows of mixed magnitude", "instance": k, "P": p.json()});
        let lp = p.to_poly();
        match lib(case, "status (regression instance)", || lp.status()) {
            Ok(st) => {
                if !handle(referee(&p.mat, &p.bias, &vec![0.0; n], &st), case, ev, "status", &desc, &st) {
                    return;
                }
                ev.inc("regression_instances_answered_correctly");
            }
            Err(pm) => {
                ev.violation(case, "c10:status:panic", "", json!({"case": desc, "panic": pm}));
                return;
            }
        }
    }
    for (k, p) in regression_instances().iter().enumerate() {
        let n = p.indim();
        let desc = json!({"class": "regression: minilp SingularMatrix panic", "instance": k, "P": p.json()});
        let lp = p.to_poly();
        match lib(case, "status (regression instance)", || lp.status()) {
            Ok(st) => {
                if !handle(referee(&p.mat, &p.bias, &vec![0.0; n], &st), case, ev, "status", &desc, &st) {
                    return;
                }
                ev.inc("regression_instances_answered_without_panic");
            }
            Err(pm) => {
                ev.violation(case, "c10:status:panic", "", json!({"case": desc, "panic": pm}));
                return;
            }
        }
    }
}

/// the polytope with no rows at all (a 0 x n matrix): the whole space
fn run_zero_by_n(case: u64, rng: &mut Rng, ev: &mut Ev) {
    let n = 1 + rng.below(5);
    let p = Aff { mat: vec![], bias: vec![] };
    let lp = affinitree::linalg::affine::Polytope::from_mats(gen::arr2(&[], n), arr1(&[]));
    ev.evaluations += 1;
    ev.inc("class_zero_by_n");
    let desc = json!({"class": "0 x n (no rows)", "n": n});
    for k in 0..3 {
        let c: Vec<f64> = if k == 0 { vec![0.0; n] } else { (0..n).map(|_| rng.int(-3, 3) as f64).collect() };
        let ans = match lib(case, "solve_linprog", || lp.solve_linprog(arr1(&c), false)) {
            Ok(a) => a,
            Err(pm) => {
                ev.violation(case, "c10:solve_linprog:panic", "", json!({"case": desc, "objective": c, "panic": pm}));
                return;
            }
        };
        let d2 = json!({"case": desc, "objective": c});
        if !handle(referee(&p.mat, &p.bias, &c, &ans), case, ev, "solve_linprog", &d2, &ans) {
            return;
        }
    }
    let mut h = Hasher::new();
    h.s(&desc.to_string());
    ev.nontrivial(h.fin());
}

/// extreme but finite magnitudes: boxes / intervals / slabs whose bounds are 10^k, k up to 30, with exact
/// power-of-two or decimal bounds; the answer must still be classified correctly (a bounded program with
/// optimum 1e21 is not "unbounded") - values are compared relative to their magnitude
fn run_huge(case: u64, rng: &mut Rng, ev: &mut Ev) {
    let n = 1 + rng.below(3);
    let mag = 10f64.powi(rng.int(8, 30) as i32);
    let mut mat = Vec::new();
    let mut bias = Vec::new();
    let bounded_above = rng.chance(0.8);
    for j in 0..n {
        let mut r = vec![0.0; n];
        r[j] = 1.0;
        if bounded_above || j > 0 {
            mat.push(r.clone());
            bias.push(mag * (1 + rng.below(3)) as f64);
        }
        r[j] = -1.0;
        mat.push(r);
        bias.push(if rng.chance(0.5) { 0.0 } else { -mag * 0.5 });
    }
    let p = Aff { mat, bias };
    ev.evaluations += 1;
    ev.inc("class_huge_magnitude");
    let desc = json!({"class": "huge magnitude", "P": p.json()});
    let lp = p.to_poly();
    let st = match lib(case, "status", || lp.status()) {
        Ok(s) => s,
        Err(pm) => {
            ev.violation(case, "c10:status:panic", "", json!({"case": desc, "panic": pm}));
            return;
        }
    };
    // the set is a non-empty box / orthant piece: it must be reported feasible
    if matches!(st, PolytopeStatus::Infeasible) {
        ev.violation(case, "c10:false-infeasible:status", "", json!({"case": desc, "library_answer": format!("{:?}", st), "problem": "a box with bounds of large magnitude is reported infeasible"}));
        return;
    }
    // min of -x_j is attained iff x_j is bounded above; min of +x_j always (lower bounds exist)
    for j in 0..n {
        for sg in [1.0f64, -1.0] {
            let mut c = vec![0.0; n];
            c[j] = sg;
            let ans = match lib(case, "solve_linprog", || lp.solve_linprog(arr1(&c), false)) {
                Ok(a) => a,
                Err(pm) => {
                    ev.violation(case, "c10:solve_linprog:panic", "", json!({"case": desc, "objective": c, "panic": pm}));
                    return;
                }
            };
            let has_min = sg > 0.0 || bounded_above || j > 0;
            let d2 = json!({"case": desc, "objective": c});
            match &ans {
                PolytopeStatus::Optimal(x) => {
                    if !has_min {
                        ev.violation(case, "c10:optimal-on-unbounded:solve_linprog", "", json!({"case": d2, "library_answer": format!("{:?}", ans)}));
                        return;
                    }
                    // value relative to the magnitude
                    let upper = p.mat.iter().zip(p.bias.iter()).find(|(r, _)| r[j] == 1.0).map(|(_, b)| *b);
                    let lower = p.mat.iter().zip(p.bias.iter()).find(|(r, _)| r[j] == -1.0).map(|(_, b)| -*b).unwrap();
                    let expect = if sg > 0.0 { lower } else { upper.unwrap() };
                    if !((x[j] - expect).abs() <= 1e-9 * mag) {
                        ev.violation(case, "c10:suboptimal:solve_linprog", "", json!({"case": d2, "library_answer": format!("{:?}", ans), "expected_coordinate": expect}));
                        return;
                    }
                    ev.inc("huge_optima_verified");
                }
                PolytopeStatus::Unbounded => {
                    if has_min {
                        // the pinned minilp has the known finding K1 (false Unbounded with a non-zero objective):
                        // only counted as K1 when minilp itself, called directly, says the same
                        if minilp_says_unbounded(&p.mat, &p.bias, &c) {
                            ev.violation(case, "c10:unbounded-but-optimum-exists:solve_linprog", K1_KEY, json!({"case": d2, "library_answer": "Unbounded"}));
                        } else {
                            ev.violation(case, "c10:unbounded-but-optimum-exists:solve_linprog", "", json!({"case": d2, "library_answer": "Unbounded", "problem": "a bounded program with an optimum of large magnitude is reported unbounded although minilp itself solves it"}));
                            return;
                        }
                    } else {
                        ev.inc("huge_unbounded_verified");
                    }
                }
                PolytopeStatus::Infeasible => {
                    ev.violation(case, "c10:false-infeasible:solve_linprog", "", json!({"case": d2, "library_answer": "Infeasible"}));
                    return;
                }
                PolytopeStatus::Error(_) => ev.skip("library reported a solver error"),
            }
        }
    }
    let mut h = Hasher::new();
    h.s(&desc.to_string());
    ev.nontrivial(h.fin());
}

/// Several hundred rows in the plane: tangent half-planes of a polygon around the origin (integer data), and
/// one or two rows at the very END of the system that decide the answer (cut the polygon, make it empty, or
/// leave it alone).
fn run_many_rows(case: u64, rng: &mut Rng, ev: &mut Ev) {
    let m = 260 + rng.below(400);
    let mut mat: Vec<Vec<f64>> = Vec::with_capacity(m + 2);
    let mut bias: Vec<f64> = Vec::with_capacity(m + 2);
    for k in 0..m {
        // integer normals spread over all directions; the half-plane a.x <= |a|_1 * 10 contains the box [-10,10]^2 ... roughly a disc
        let ang = (k as f64) * std::f64::consts::TAU / (m as f64);
        let a = ((ang.cos() * 64.0).round(), (ang.sin() * 64.0).round());
        if a.0 == 0.0 && a.1 == 0.0 {
            continue;
        }
        mat.push(vec![a.0, a.1]);
        bias.push(((a.0 * a.0 + a.1 * a.1) as f64).sqrt().ceil() * 10.0);
    }
    let kind = rng.below(3);
    match kind {
        0 => {
            // empty by a wide margin: x0 <= -20 contradicts the polygon (radius about 10)
            mat.push(vec![1.0, 0.0]);
            bias.push(-20.0);
        }
        1 => {
            // a small box far from the centre of the polygon but inside it
            mat.push(vec![-1.0, 0.0]);
            bias.push(-5.0);
            mat.push(vec![0.0, -1.0]);
            bias.push(-5.0);
        }
        _ => {}
    }
    let p = Aff { mat, bias };
    ev.evaluations += 1;
    ev.inc("class_many_rows");
    let desc = json!({"class": "many rows (deciding rows last)", "rows": p.mat.len(), "kind": kind, "last_rows": p.mat.iter().rev().take(2).collect::<Vec<_>>()});
    let lp = p.to_poly();
    let st = match lib(case, "status", || lp.status()) {
        Ok(s) => s,
        Err(pm) => {
            ev.violation(case, "c10:status:panic", "", json!({"case": desc, "panic": pm}));
            return;
        }
    };
    if !handle(referee(&p.mat, &p.bias, &[0.0, 0.0], &st), case, ev, "status", &desc, &st) {
        return;
    }
    match lib(case, "is_feasible", || lp.is_feasible()) {
        Ok(f) => {
            if f != (kind != 0) {
                ev.violation(case, "c10:is_feasible", "", json!({"case": desc, "is_feasible": f, "problem": "is_feasible disagrees with the construction"}));
                return;
            }
        }
        Err(pm) => {
            ev.violation(case, "c10:is_feasible:panic", "", json!({"case": desc, "panic": pm}));
            return;
        }
    }
    let mut h = Hasher::new();
    h.s(&desc.to_string());
    ev.nontrivial(h.fin());
}

/// badly scaled systems: rows multiplied by powers of two up to 2^21 and near-duplicate slabs, the kind of
/// path polytope that long composition histories produce
fn run_badly_scaled(case: u64, rng: &mut Rng, ev: &mut Ev) {
    let n = 2 + rng.below(4);
    let m = n + 2 + rng.below(6);
    let mut p = gen::pred(rng, m, n, Regime::Dyadic);
    for i in 0..m {
        if rng.chance(0.4) {
            let f = 2f64.powi(rng.int(8, 21) as i32) * (1.0 + rng.below(8) as f64 / 8.0);
            for v in p.mat[i].iter_mut() {
                *v *= f;
            }
            p.bias[i] *= f;
        }
    }
    if rng.chance(0.6) {
        // a negated copy of a scaled row with a bias making a thin, empty or unit slab
        let i = rng.below(m);
        let row: Vec<f64> = p.mat[i].iter().map(|v| -*v).collect();
        let b = -p.bias[i] + *rng.pick(&[1.0, 0.0, -1.0, 0.5, -1e-3]);
        p.mat.push(row);
        p.bias.push(b);
    }
    ev.evaluations += 1;
    ev.inc("class_badly_scaled");
    let desc = json!({"class": "badly_scaled", "P": p.json()});
    let lp = p.to_poly();
    match lib(case, "status", || lp.status()) {
        Ok(st) => {
            if matches!(st, PolytopeStatus::Error(_)) {
                ev.inc("badly_scaled_solver_error_status");
            }
            if !handle(referee(&p.mat, &p.bias, &vec![0.0; n], &st), case, ev, "status", &desc, &st) {
                return;
            }
            let mut h = Hasher::new();
            h.s(&desc.to_string());
            ev.nontrivial(h.fin());
        }
        Err(pm) => {
            ev.violation(case, "c10:status:panic", "", json!({"case": desc, "panic": pm}));
        }
    }
}

pub fn run_case(ctx: &Ctx, case: u64, ev: &mut Ev) {
    let mut rng = Rng::derive(ctx.seed, "C10", case);
    rng.big = crate::draw_big(ctx, &mut rng);
    if case == 0 {
        run_regressions(case, ev);
    }
    if rng.chance(0.08) {
        return run_badly_scaled(case, &mut rng, ev);
    }
    if rng.chance(0.01) {
        return run_zero_by_n(case, &mut rng, ev);
    }
    if rng.chance(0.03) {
        return run_huge(case, &mut rng, ev);
    }
    if rng.chance(0.004) {
        return run_many_rows(case, &mut rng, ev);
    }
    match rng.below(10) {
        0..=5 => run_generated(case, &mut rng, ev),
        6..=7 => run_chebyshev(case, &mut rng, ev),
        _ => run_online(case, &mut rng, ev),
    }
}

fn run_generated(case: u64, rng: &mut Rng, ev: &mut Ev) {
    let n = if rng.big || rng.chance(0.1) { 5 + rng.below(4) } else { 1 + rng.below(4) };
    let (mut p, class) = gen_system(rng, n);
    if rng.big || rng.chance(0.1) {
        // pile up more cuts (up to ~20 rows)
        for _ in 0..(5 + rng.below(10)) {
            p.mat.push(gen::nonzero_row(rng, n, Regime::Int));
            p.bias.push(rng.int(0, 6) as f64);
        }
    }
    let lp = p.to_poly();
    ev.evaluations += 1;
    ev.inc(&format!("class_{}", class));
    let desc = json!({"class": class, "P": p.json()});
    // status / is_feasible
    let st = match lib(case, "status", || lp.status()) {
        Ok(s) => s,
        Err(pm) => {
            ev.violation(case, "c10:status:panic", "", json!({"case": desc, "panic": pm}));
            return;
        }
    };
    if !handle(referee(&p.mat, &p.bias, &vec![0.0; n], &st), case, ev, "status", &desc, &st) {
        return;
    }
    match lib(case, "is_feasible", || lp.is_feasible()) {
        Ok(f) => {
            let expect = !matches!(st, PolytopeStatus::Infeasible);
            if f != expect && !matches!(st, PolytopeStatus::Error(_)) {
                ev.violation(case, "c10:is_feasible-vs-status", "", json!({"case": desc, "status": format!("{:?}", st), "is_feasible": f}));
                return;
            }
        }
        Err(pm) => {
            if !matches!(st, PolytopeStatus::Error(_)) {
                ev.violation(case, "c10:is_feasible:panic", "", json!({"case": desc, "panic": pm}));
                return;
            }
        }
    }
    // objectives: random, along rows (recession / lineality directions), axis
    for k in 0..3 {
        let c: Vec<f64> = match (k, rng.below(3)) {
            (0, _) => (0..n).map(|_| rng.int(-3, 3) as f64).collect(),
            (1, _) => {
                let r = rng.pick(&p.mat).clone();
                let s = if rng.chance(0.5) { 1.0 } else { -1.0 };
                r.iter().map(|v| v * s).collect()
            }
            _ => {
                let mut v = vec![0.0; n];
                v[rng.below(n)] = if rng.chance(0.5) { 1.0 } else { -1.0 };
                v
            }
        };
        let ans = match lib(case, "solve_linprog", || lp.solve_linprog(arr1(&c), false)) {
            Ok(a) => a,
            Err(pm) => {
                ev.violation(case, "c10:solve_linprog:panic", "", json!({"case": desc, "objective": c, "panic": pm}));
                return;
            }
        };
        let d2 = json!({"class": class, "P": p.json(), "objective": c});
        if !handle(referee(&p.mat, &p.bias, &c, &ans), case, ev, "solve_linprog", &d2, &ans) {
            return;
        }
    }
    if class != "box+cuts" && class != "random" {
        let mut h = Hasher::new();
        h.s(&desc.to_string());
        ev.nontrivial(h.fin());
    }
    if ev.want_sample() {
        ev.sample(json!({"case": desc, "status": format!("{:?}", st)}));
    }
}

fn run_chebyshev(case: u64, rng: &mut Rng, ev: &mut Ev) {
    // rows with rational norms: axis-aligned (+-k e_j) and 3-4-5 rows in two coordinates
    let n = 1 + rng.below(3);
    let mut rows: Vec<(Vec<f64>, f64, f64)> = Vec::new(); // (row, bias, norm)
    let bounded = rng.chance(0.7);
    for j in 0..n {
        let k = *rng.pick(&[1.0, 2.0, 0.5]);
        let mut r = vec![0.0; n];
        r[j] = k;
        rows.push((r.clone(), k * rng.int(1, 4) as f64, k));
        if bounded || rng.chance(0.5) {
            r[j] = -k;
            rows.push((r, k * rng.int(1, 4) as f64, k));
        }
    }
    if n >= 2 {
        for _ in 0..rng.below(3) {
            let i = rng.below(n);
            let mut j = rng.below(n);
            if i == j {
                j = (j + 1) % n;
            }
            let mut r = vec![0.0; n];
            r[i] = *rng.pick(&[3.0, -3.0, 0.6, -0.6][..2]);
            r[j] = *rng.pick(&[4.0, -4.0]);
            rows.push((r, rng.int(2, 12) as f64, 5.0));
        }
    }
    let p = Aff {
        mat: rows.iter().map(|r| r.0.clone()).collect(),
        bias: rows.iter().map(|r| r.1).collect(),
    };
    ev.evaluations += 1;
    let desc = json!({"chebyshev_of": p.json(), "bounded": bounded});
    let (cp, cost) = match lib(case, "chebyshev_center", || p.to_poly().chebyshev_center()) {
        Ok(x) => x,
        Err(pm) => {
            ev.violation(case, "c10:chebyshev:panic", "", json!({"case": desc, "panic": pm}));
            return;
        }
    };
    let cpa = Aff::from_poly(&cp);
    let cost_v = cost.to_vec();
    // the program must be: a_i.x + ||a_i|| r <= b_i, -r <= 0, minimise -r
    let mut expect = Sys::new(n + 1);
    for (r, b, norm) in &rows {
        let mut row = qv(r);
        row.push(Q::from_f64(*norm));
        expect.push(row, Q::from_f64(*b));
    }
    let mut last = vec![Q::zero(); n + 1];
    last[n] = Q::int(-1);
    expect.push(last, Q::zero());
    let got = cpa.sys();
    let same_rows = got.m() == expect.m() && (0..got.m()).all(|i| got.a[i] == expect.a[i] && got.b[i] == expect.b[i]);
    let mut exp_cost = vec![0.0; n + 1];
    exp_cost[n] = -1.0;
    if !same_rows || cost_v != exp_cost {
        ev.violation(case, "c10:chebyshev:program", "", json!({"case": desc, "program": cpa.json(), "cost": cost_v, "problem": "the Chebyshev program is not {a_i.x + ||a_i|| r <= b_i, r >= 0, min -r}"}));
        return;
    }
    let ans = match lib(case, "solve_linprog(chebyshev)", || cp.solve_linprog(cost.clone(), false)) {
        Ok(a) => a,
        Err(pm) => {
            ev.violation(case, "c10:chebyshev:solve:panic", "", json!({"case": desc, "panic": pm}));
            return;
        }
    };
    if !handle(referee(&cpa.mat, &cpa.bias, &cost_v, &ans), case, ev, "chebyshev", &desc, &ans) {
        return;
    }
    if let PolytopeStatus::Optimal(w) = &ans {
        // radius must be the exact largest inscribed radius and the ball inscribed
        if let Ok(Opt::Optimal { value, .. }) = lpx::minimize(&expect, &qv(&exp_cost)) {
            let rstar = -value.to_f64();
            let r = w[n];
            if (r - rstar).abs() > 1e-6 * (1.0 + rstar.abs()) {
                ev.violation(case, "c10:chebyshev:radius", "", json!({"case": desc, "radius": r, "exact_radius": rstar}));
                return;
            }
            let c: Vec<f64> = w.to_vec()[..n].to_vec();
            for (row, b, norm) in &rows {
                let lhs: f64 = row.iter().zip(c.iter()).map(|(a, x)| a * x).sum::<f64>() + r * norm;
                if lhs > b + 1e-6 * (1.0 + b.abs()) {
                    ev.violation(case, "c10:chebyshev:not-inscribed", "", json!({"case": desc, "center": c, "radius": r, "row": row}));
                    return;
                }
            }
            ev.inc("chebyshev_balls_verified");
        }
    }
    let mut h = Hasher::new();
    h.s(&desc.to_string());
    ev.nontrivial(h.fin());
}

/// every LP the library solves while it prunes a random tree / distils a small net
fn run_online(case: u64, rng: &mut Rng, ev: &mut Ev) {
    let t = match super::c03::tree_with_history(rng, case, ev, false) {
        Some((t, _)) => t,
        None => return,
    };
    ev.evaluations += 1;
    let mut t2 = t.clone();
    affinitree::verif::arm(Default::default(), None, true);
    let r = lib(case, "infeasible_elimination (logged)", || {
        t2.infeasible_elimination();
        // a pruned composition on top, to reach is_edge_feasible as well
        let od = crate::snap::snap(&t2).wf_aff(None).unwrap_or(1);
        if od >= 1 {
            let g = affinitree::distill::schema::partial_ReLU(od, 0);
            t2.compose::<true, false>(&g);
        }
    });
    let (_n, log) = affinitree::verif::disarm();
    if r.is_err() {
        ev.skip("pipeline panicked (C04's subject)");
    }
    let desc = json!({"online": "LP calls of infeasible_elimination + compose::<true>(ReLU)", "tree": crate::snap::snap(&t).to_json()});
    let mut any = false;
    for e in log.iter() {
        let rows: Vec<Vec<f64>> = e.mat.outer_iter().map(|r| r.to_vec()).collect();
        let v = referee(&rows, &e.bias.to_vec(), &e.cost.to_vec(), &e.real);
        ev.inc("online_lp_calls_refereed");
        any = true;
        let d2 = json!({"context": desc, "lp": {"mat": rows, "bias": e.bias.to_vec(), "cost": e.cost.to_vec()}, "call_index": e.index});
        if !handle(v, case, ev, "online", &d2, &e.real) {
            return;
        }
    }
    if any {
        let mut h = Hasher::new();
        h.u(crate::snap::snap(&t).structural_hash());
        ev.nontrivial(h.fin());
    }
}

/// known finding K1 for C10: re-execute the committed LP witness
pub fn k1_witness(w: &Value) -> Result<bool, String> {
    let rows: Vec<Vec<f64>> = serde_json::from_value(w["lp_rows"].clone()).map_err(|e| e.to_string())?;
    let bias: Vec<f64> = serde_json::from_value(w["lp_bias"].clone()).map_err(|e| e.to_string())?;
    let cost: Vec<f64> = serde_json::from_value(w["objective"].clone()).map_err(|e| e.to_string())?;
    let p = Aff { mat: rows.clone(), bias: bias.clone() };
    let ans = lib(0, "solve_linprog", || p.to_poly().solve_linprog(arr1(&cost), false))?;
    match referee(&rows, &bias, &cost, &ans) {
        Verdict::Bad(_, key, _) => Ok(key == K1_KEY),
        _ => Ok(false),
    }
}
