//! C09 — reported regions agree with evaluation and partition the domain.
//!
//! Oracle: reference DFS with exact path rows; routing vs reported polytopes both ways;
//! pairwise exact interior-disjointness of terminal regions; cover of lattice points.

use super::common::*;
use crate::ev::{Ev, Hasher};
use crate::gen::{self, Aff, Regime, TreeCfg};
use crate::lpx::{self, Band};
use crate::q::{qv, Q};
use crate::rng::Rng;
use crate::snap::{snap, Ev as TEv};
use crate::util::lib;
use crate::Ctx;
use serde_json::json;
use std::collections::{BTreeMap, BTreeSet};

pub fn run_case(ctx: &Ctx, case: u64, ev: &mut Ev) {
    let mut rng = Rng::derive(ctx.seed, "C09", case);
    rng.big = crate::draw_big(ctx, &mut rng);
    let rg = match rng.below(10) {
        0..=4 => Regime::Int,
        5..=7 => Regime::Dyadic,
        _ => Regime::Short,
    };
    let n = 1 + rng.below(if rng.big { 4 } else { 3 });
    let od = 1 + rng.below(2);
    let mut cfg = TreeCfg::basic(2, n, od, rg);
    cfg.max_depth = 1 + rng.below(if rng.big { 7 } else { 5 });
    cfg.p_stop = 0.2;
    cfg.p_missing = if rng.chance(0.5) { 0.25 } else { 0.0 };
    cfg.p_contra = if rng.chance(0.3) { 0.3 } else { 0.0 };
    cfg.p_zero_pred = if rng.chance(0.1) { 0.15 } else { 0.0 };
    cfg.allow_leaf_root = rng.chance(0.05);
    let sp = gen::spec(&mut rng, &cfg);
    let scr = rng.chance(0.6);
    let mut tree = gen::build::<2>(&sp, &mut rng, scr);
    // a third of the trees carry a history: cached feasibility states (incl. kept Infeasible-flagged nodes
    // of partial decisions) and the index holes left by an elimination
    if rng.chance(0.35) {
        match lib(case, "history: infeasible_elimination", || {
            let mut t = tree.clone();
            t.infeasible_elimination();
            t
        }) {
            Ok(t) => {
                tree = t;
                ev.inc("trees_with_elimination_history");
            }
            Err(_) => {
                ev.skip("elimination panicked while preparing the tree (C04's subject)");
                return;
            }
        }
    }
    let s = snap(&tree);
    if s.nodes.values().any(|nd| nd.has_children() && nd.state == crate::snap::SState::Infeasible) {
        ev.inc("trees_with_flagged_infeasible_inner_node");
    }
    ev.evaluations += 1;
    let desc = json!({"tree": s.to_json()});
    macro_rules! fail {
        ($sig:expr, $msg:expr) => {{
            ev.violation(case, $sig, "", json!({"case": desc, "problem": $msg}));
            return;
        }};
    }
    let total = s.nodes.values().all(|nd| !nd.has_children() || nd.n_children() == 2);

    // ---------- (1) full stream of polyhedra(): order, depth, counters, reported rows == path rows
    let mut reported: BTreeMap<usize, Vec<Aff>> = BTreeMap::new();
    {
        let res = lib(case, "polyhedra() stream", || {
            let mut it = tree.polyhedra();
            let mut out = Vec::new();
            while let Some((d, polys)) = it.next(&tree.tree) {
                out.push((d.depth, d.index, d.n_remaining, polys.iter().map(Aff::from_poly).collect::<Vec<_>>()));
                if out.len() > 100_000 {
                    break;
                }
            }
            out
        });
        let stream = match res {
            Ok(x) => x,
            Err(p) => fail!("c09:polyhedra:panic", p),
        };
        // reference pre-order
        let order = s.subtree(s.root);
        if stream.iter().map(|x| x.1).collect::<Vec<_>>() != order {
            fail!("c09:order", format!("polyhedra() visits {:?}, depth-first pre-order is {:?}", stream.iter().map(|x| x.1).collect::<Vec<_>>(), order));
        }
        for (depth, idx, nrem, polys) in &stream {
            let path = match s.path(*idx) {
                Ok(p) => p,
                Err(e) => fail!("c09:path", e),
            };
            if *depth != path.len() {
                fail!("c09:depth", format!("node {} reported at depth {} but has {} ancestors", idx, depth, path.len()));
            }
            let exp_rem = match path.last() {
                None => 0,
                Some((p, l)) => s.node(*p).children.iter().enumerate().filter(|(l2, c)| *l2 > *l && c.is_some()).count(),
            };
            if *nrem != exp_rem {
                fail!("c09:sibling-counter", format!("node {} reported with n_remaining {} expected {}", idx, nrem, exp_rem));
            }
            let rows = match s.path_rows_f64(*idx) {
                Ok(r) => r,
                Err(e) => fail!("c09:path", e),
            };
            if polys.len() != rows.len() {
                fail!("c09:region-length", format!("node {}: {} halfspaces reported, path has {} decisions", idx, polys.len(), rows.len()));
            }
            for (k, (p, (row, b))) in polys.iter().zip(rows.iter()).enumerate() {
                if p.mat.len() != 1 || p.mat[0] != *row || p.bias[0] != *b {
                    fail!("c09:region-row", format!("node {}: reported halfspace {} is {:?} <= {:?}, the path condition is {:?} <= {}", idx, k, p.mat, p.bias, row, b));
                }
            }
            reported.insert(*idx, polys.clone());
        }
        ev.count("nodes_streamed", stream.len() as u64);
    }

    // ---------- (2) stream with skip_subtree at random (and repeated) positions: reported rows stay right
    {
        let order = s.subtree(s.root);
        let mut mask: BTreeSet<usize> = BTreeSet::new();
        for i in 0..order.len() {
            if rng.chance(0.25) {
                mask.insert(i);
            }
        }
        let repeat = rng.chance(0.3);
        if !mask.is_empty() {
            let res = lib(case, "polyhedra() stream with skips", || {
                let mut it = tree.polyhedra();
                let mut out = Vec::new();
                let mut pos = 0usize;
                while let Some((d, polys)) = it.next(&tree.tree) {
                    out.push((d.depth, d.index, d.n_remaining, polys.iter().map(Aff::from_poly).collect::<Vec<_>>()));
                    if mask.contains(&pos) {
                        it.skip_subtree();
                        if repeat {
                            it.skip_subtree();
                        }
                    }
                    pos += 1;
                    if out.len() > 100_000 {
                        break;
                    }
                }
                out
            });
            let stream = match res {
                Ok(x) => x,
                Err(p) => fail!("c09:polyhedra-skip:panic", p),
            };
            // reference: pre-order with skips after stream positions
            let mut exp = Vec::new();
            let mut stack = vec![s.root];
            while let Some(i) = stack.pop() {
                let pos = exp.len();
                exp.push(i);
                if mask.contains(&pos) {
                    continue;
                }
                for c in s.node(i).children.iter().rev().flatten() {
                    stack.push(*c);
                }
            }
            if stream.iter().map(|x| x.1).collect::<Vec<_>>() != exp {
                fail!("c09:skip-order", format!("with skips after positions {:?} (repeat={}) polyhedra() visits {:?}, expected {:?}", mask, repeat, stream.iter().map(|x| x.1).collect::<Vec<_>>(), exp));
            }
            for (depth, idx, _, polys) in &stream {
                let rows = s.path_rows_f64(*idx).unwrap();
                if *depth != rows.len() || polys.len() != rows.len() || polys.iter().zip(rows.iter()).any(|(p, (row, b))| p.mat.len() != 1 || p.mat[0] != *row || p.bias[0] != *b) {
                    fail!("c09:skip-region", format!("with skips after positions {:?} (repeat={}): node {} is reported with a path condition that is not its own", mask, repeat, idx));
                }
            }
            ev.inc("skip_streams_checked");
        }
    }

    // ---------- (2a') PolyhedraGen::with_root at interior nodes: a node at relative depth k is reported with the
    // half-space of the edge into the start node followed by the k half-spaces of its path inside the subtree
    // (seeded change C09-m: the stack was cut relative to the tree root after the first return of the DFS)
    {
        let mut starts = Vec::new();
        let mut stack = vec![s.root];
        while let Some(i) = stack.pop() {
            if i != s.root && s.node(i).children.iter().flatten().count() > 0 && starts.len() < 6 {
                starts.push(i);
            }
            for c in s.node(i).children.iter().rev().flatten() {
                stack.push(*c);
            }
        }
        for r in starts {
            let res = lib(case, "PolyhedraGen::with_root stream", || {
                let mut it = affinitree::pwl::iter::PolyhedraGen::with_root(&tree.tree, r);
                let mut out = Vec::new();
                while let Some((d, polys)) = it.next(&tree.tree) {
                    out.push((d.depth, d.index, polys.iter().map(Aff::from_poly).collect::<Vec<_>>()));
                    if out.len() > 100_000 {
                        break;
                    }
                }
                out
            });
            let stream = match res {
                Ok(x) => x,
                Err(p) => fail!("c09:with_root:panic", p),
            };
            for (depth, idx, polys) in &stream {
                let rows = s.path_rows_f64(*idx).unwrap();
                let want = depth + 1;
                if rows.len() < want {
                    fail!("c09:with_root-region", format!("with_root({}): node {} reported at relative depth {} but its path has {} edges", r, idx, depth, rows.len()));
                }
                let tail = &rows[rows.len() - want..];
                if polys.len() != want || polys.iter().zip(tail.iter()).any(|(p, (row, b))| p.mat.len() != 1 || p.mat[0] != *row || p.bias[0] != *b) {
                    fail!("c09:with_root-region", format!("with_root({}): node {} (relative depth {}) is reported with {} half-spaces that are not the entry edge of the start node followed by its path inside the subtree", r, idx, depth, polys.len()));
                }
            }
            ev.inc("with_root_streams_checked");
        }
    }

    // ---------- (2b) the Iterator form consumed through adaptors (nth / skip / step_by): same items
    {
        type Item = (usize, usize, usize, Vec<Aff>);
        let conv = |(d, i, r, ps): (usize, usize, usize, Vec<affinitree::linalg::affine::Polytope>)| -> Item { (d, i, r, ps.iter().map(Aff::from_poly).collect()) };
        let k = 1 + rng.below(4);
        let st = 2 + rng.below(3);
        let res = lib(case, "polyhedra_iter() through adaptors", || {
            let full: Vec<Item> = tree.polyhedra_iter().map(conv).collect();
            let skipped: Vec<Item> = tree.polyhedra_iter().skip(k).map(conv).collect();
            let stepped: Vec<Item> = tree.polyhedra_iter().step_by(st).map(conv).collect();
            let mut it = tree.polyhedra_iter();
            let nth = it.nth(k).map(conv);
            let after: Option<Item> = it.next().map(conv);
            (full, skipped, stepped, nth, after)
        });
        let (full, skipped, stepped, nth, after) = match res {
            Ok(x) => x,
            Err(p) => fail!("c09:polyhedra_iter:panic", p),
        };
        if full.len() != s.nodes.len() || full.iter().any(|(_, i, _, ps)| reported.get(i).map_or(true, |r| r != ps)) {
            fail!("c09:polyhedra_iter", "polyhedra_iter() and polyhedra() report different regions".to_string());
        }
        let exp_skip: Vec<Item> = full.iter().skip(k).cloned().collect();
        let exp_step: Vec<Item> = full.iter().step_by(st).cloned().collect();
        if skipped != exp_skip {
            fail!("c09:polyhedra_iter:skip", format!("polyhedra_iter().skip({}) does not yield the items of the plain traversal from position {}", k, k));
        }
        if stepped != exp_step {
            fail!("c09:polyhedra_iter:step_by", format!("polyhedra_iter().step_by({}) does not yield every {}-th item of the plain traversal", st, st));
        }
        if nth != full.get(k).cloned() || after != full.get(k + 1).cloned() {
            fail!("c09:polyhedra_iter:nth", format!("polyhedra_iter().nth({}) / the item after it differ from the plain traversal", k));
        }
        ev.inc("adaptor_traversals_checked");
    }

    // ---------- (3) routing vs reported regions, both directions
    let pts = gen::probes(&mut rng, &[&s], n, 60);
    let mut hyper = 0;
    for x in &pts {
        let xq = qv(x);
        let (exact, route) = s.eval_from(s.root, &xq);
        if !gen::route_rounding_safe(&s, x) {
            ev.skip("input within rounding distance of a hyperplane (float regime)");
            continue;
        }
        let on_plane = route.iter().any(|(nn, _)| {
            let nd = s.node(*nn);
            crate::q::dot(&qv(&nd.mat[0]), &xq) == Q::from_f64(nd.bias[0])
        });
        if on_plane {
            hyper += 1;
        }
        let ft = match lib(case, "find_terminal", || tree.find_terminal(tree.tree.get_root(), &gen::arr1(x)).map(|(nd, labels)| (Aff::from_lib(&nd.value.aff), nd.parent, labels))) {
            Ok(v) => v,
            Err(p) => fail!("c09:find_terminal:panic", p),
        };
        match (&exact, ft) {
            (TEv::Val(node, _), Some((aff, parent, labels))) => {
                let nd = s.node(*node);
                if aff.mat != nd.mat || aff.bias != nd.bias || parent != nd.parent {
                    fail!("c09:find_terminal:node", format!("x={:?}: find_terminal returned a different node than the exact walk (node {})", x, node));
                }
                let path_labels: Vec<usize> = s.path(*node).unwrap().iter().map(|p| p.1).collect();
                if labels != path_labels {
                    fail!("c09:find_terminal:labels", format!("x={:?}: label sequence {:?} but the path of the returned terminal {} is {:?}", x, labels, node, path_labels));
                }
            }
            (TEv::Undef(_, _), None) => {}
            (e, got) => fail!("c09:find_terminal:definedness", format!("x={:?}: exact walk {} but find_terminal {:?}", x, e.brief(), got.map(|g| g.2))),
        }
        // evaluate() routes like find_terminal: it returns the value of that terminal's function at x
        let evl = match lib(case, "evaluate", || tree.evaluate(&gen::arr1(x)).map(|v| v.to_vec())) {
            Ok(v) => v,
            Err(p) => fail!("c09:evaluate:panic", p),
        };
        match (&exact, evl) {
            (TEv::Val(node, val), Some(got)) => {
                let nd = s.node(*node);
                if let Err(e) = gen::value_matches(&nd.mat, &nd.bias, x, &got, val) {
                    fail!("c09:evaluate:value", format!("x={:?}: find_terminal / the exact walk end in terminal {} but evaluate() returned {:?}: {}", x, node, got, e));
                }
                ev.inc("evaluate_agrees_with_find_terminal");
            }
            (TEv::Undef(_, _), None) => {}
            (e, got) => fail!("c09:evaluate:definedness", format!("x={:?}: exact walk {} but evaluate {:?}", x, e.brief(), got)),
        }
        // x satisfies the reported conditions of every node on its route (incl. the end node)
        let mut on_route: Vec<usize> = route.iter().map(|r| r.0).collect();
        if let TEv::Val(nn, _) = &exact {
            on_route.push(*nn);
        }
        for nn in &on_route {
            if let Some(polys) = reported.get(nn) {
                for p in polys {
                    if !p.sys().contains(&xq) {
                        fail!("c09:route-outside-region", format!("x={:?} is routed through node {} but violates its reported condition {:?} <= {:?}", x, nn, p.mat, p.bias));
                    }
                }
            }
        }
        ev.inc("inputs_checked");
    }
    ev.count("inputs_on_a_hyperplane_of_their_route", hyper);
    // strictly interior point of every node's reported polytope is routed through that node
    let mut term_regions: Vec<(usize, lpx::Sys)> = Vec::new();
    for (idx, polys) in &reported {
        let mut sys = lpx::Sys::new(n);
        for p in polys {
            sys.extend(&p.sys());
        }
        if !s.node(*idx).has_children() {
            term_regions.push((*idx, sys.clone()));
        }
        if sys.m() == 0 {
            continue;
        }
        match classify_cell(&sys) {
            Ok((Band::Thick, Some(x), _)) => {
                // "strictly inside" is meant literally here: a reported row 0.x <= 0 (the closed
                // negation of a constant predicate) has no strictly interior point at all
                if !sys.slacks(&qv(&x)).iter().all(|sl| sl.is_pos()) {
                    ev.inc("regions_without_interior");
                    continue;
                }
                let (_, route) = s.eval_from(s.root, &qv(&x));
                let (end, _) = s.eval_from(s.root, &qv(&x));
                let through = route.iter().any(|r| r.0 == *idx) || matches!(&end, TEv::Val(e, _) if e == idx);
                if !through {
                    fail!("c09:interior-not-routed", format!("x={:?} is strictly inside the reported region of node {} but is not routed through it", x, idx));
                }
                ev.inc("interior_points_routed");
            }
            Ok(_) => ev.inc("regions_without_interior"),
            Err(_) => ev.skip("oracle-error"),
        }
    }
    // ---------- (4) partition: pairwise disjoint interiors, cover for total trees
    if term_regions.len() <= 24 {
        for i in 0..term_regions.len() {
            for j in 0..i {
                let mut sys = term_regions[i].1.clone();
                sys.extend(&term_regions[j].1);
                match lpx::max_slack(&sys, &Q::one()) {
                    Ok(c) => {
                        if c.t.is_pos() {
                            fail!("c09:overlap", format!("terminals {} and {} have a common interior point {:?}", term_regions[i].0, term_regions[j].0, c.x.iter().map(|q| q.to_f64()).collect::<Vec<_>>()));
                        }
                        ev.inc("terminal_pairs_disjoint");
                    }
                    Err(_) => ev.skip("oracle-error"),
                }
            }
        }
    } else {
        ev.skip("more than 24 terminals: pairwise disjointness not enumerated");
    }
    if total {
        for x in gen::lattice(&mut rng, n, 3, 0.5, 80) {
            let xq = qv(&x);
            match s.eval(&xq) {
                TEv::Val(node, _) => {
                    let reg = term_regions.iter().find(|t| t.0 == node);
                    if let Some((_, sys)) = reg {
                        if !sys.contains(&xq) {
                            fail!("c09:cover", format!("x={:?} reaches terminal {} but is outside its reported region", x, node));
                        }
                    }
                }
                e => fail!("c09:cover:undefined", format!("total tree but x={:?} gives {}", x, e.brief())),
            }
        }
        ev.inc("total_trees_cover_checked");
    }
    let maxdepth = s.nodes.keys().map(|i| s.depth_of(*i)).max().unwrap_or(0);
    if maxdepth >= 3 || hyper > 0 {
        let mut h = Hasher::new();
        h.u(s.structural_hash());
        ev.nontrivial(h.fin());
    }
    if ev.want_sample() {
        ev.sample(json!({"nodes": s.nodes.len(), "depth": maxdepth, "total": total, "tree": s.to_json()}));
    }
}
