//! Helpers shared by the tree monitors.

use crate::gen;
use crate::q::{dot, qv, Q};
use crate::snap::{Ev as TEv, SNode, Snap};
use crate::util::lib;
use affinitree::pwl::afftree::AffTree;
use serde_json::{json, Value};

pub use super::c16::{close, dot_bound};

/// Are all coefficients of the snapshot and the point "small dyadics", so that every f64
/// operation the library performs on them is exact?
pub fn small_dyadic(v: f64) -> bool {
    let s = v * 1024.0;
    s.fract() == 0.0 && s.abs() < (1u64 << 30) as f64
}

pub fn snap_is_exact(s: &Snap) -> bool {
    s.nodes.values().all(|n| n.mat.iter().flatten().chain(n.bias.iter()).all(|v| small_dyadic(*v)))
}

/// Compare the library's `evaluate` with the independent exact walk of the same tree.
/// Returns Ok(exact result) if they agree (or the point is rounding-unsafe => Ok with skipped=true).
pub fn lib_vs_exact<const K: usize>(tree: &AffTree<K>, s: &Snap, x: &[f64], case: u64) -> Result<(TEv, bool), String> {
    let xq = qv(x);
    let exact = s.eval(&xq);
    let safe = gen::route_rounding_safe(s, x);
    let l = lib(case, "evaluate", || tree.evaluate(&gen::arr1(x))).map_err(|p| format!("evaluate({:?}) panicked: {}", x, p))?;
    if !safe {
        return Ok((exact, true));
    }
    match (&exact, &l) {
        (TEv::Undef(..), None) => Ok((exact, false)),
        (TEv::Val(node, v), Some(lv)) => {
            let nd = s.node(*node);
            gen::value_matches(&nd.mat, &nd.bias, x, &lv.to_vec(), v).map_err(|e| format!("x={:?}: evaluate() vs exact walk to node {}: {}", x, node, e))?;
            Ok((exact, false))
        }
        (TEv::Broken(b), _) => Err(format!("x={:?}: tree is structurally broken: {}", x, b)),
        (e, l) => Err(format!("x={:?}: evaluate() = {:?} but the exact walk gives {}", x, l.as_ref().map(|v| v.to_vec()), e.brief())),
    }
}

/// exact (A*M, b - A*c) : predicate (A,b) of g rewritten over terminal (M,c) of f
pub fn exact_update_decision(g: &SNode, t: &SNode) -> (Vec<Vec<Q>>, Vec<Q>) {
    let rows = g.mat.len();
    let k = t.indim();
    let inner = t.mat.len();
    let mut mat = vec![vec![Q::zero(); k]; rows];
    let mut bias = Vec::with_capacity(rows);
    for i in 0..rows {
        let gi = qv(&g.mat[i]);
        for j in 0..k {
            let col: Vec<Q> = (0..inner).map(|r| Q::from_f64(t.mat[r][j])).collect();
            mat[i][j] = dot(&gi, &col);
        }
        bias.push(Q::from_f64(g.bias[i]).sub(&dot(&gi, &qv(&t.bias))));
    }
    (mat, bias)
}

/// exact (A*M, A*c + b): terminal (A,b) of g composed after terminal (M,c) of f
pub fn exact_update_terminal(g: &SNode, t: &SNode) -> (Vec<Vec<Q>>, Vec<Q>) {
    let rows = g.mat.len();
    let k = t.indim();
    let inner = t.mat.len();
    let mut mat = vec![vec![Q::zero(); k]; rows];
    let mut bias = Vec::with_capacity(rows);
    for i in 0..rows {
        let gi = qv(&g.mat[i]);
        for j in 0..k {
            let col: Vec<Q> = (0..inner).map(|r| Q::from_f64(t.mat[r][j])).collect();
            mat[i][j] = dot(&gi, &col);
        }
        bias.push(Q::from_f64(g.bias[i]).add(&dot(&gi, &qv(&t.bias))));
    }
    (mat, bias)
}

/// compare stored f64 coefficients with exact ones: equality in the exact regime, otherwise a
/// rounding allowance proportional to the magnitude of the operands
pub fn coeffs_match(stored: &SNode, mat: &[Vec<Q>], bias: &[Q], exact_regime: bool, scale: f64) -> Result<(), String> {
    if stored.mat.len() != mat.len() || stored.bias.len() != bias.len() {
        return Err(format!("shape {}x? vs {}x?", stored.mat.len(), mat.len()));
    }
    for i in 0..mat.len() {
        if stored.mat[i].len() != mat[i].len() {
            return Err(format!("row {} width {} vs {}", i, stored.mat[i].len(), mat[i].len()));
        }
        for j in 0..mat[i].len() {
            let ok = if exact_regime {
                Q::from_f64(stored.mat[i][j]) == mat[i][j]
            } else {
                (stored.mat[i][j] - mat[i][j].to_f64()).abs() <= 1e-12 * scale
            };
            if !ok {
                return Err(format!("mat[{}][{}] = {:e} but exact value is {:e}", i, j, stored.mat[i][j], mat[i][j].to_f64()));
            }
        }
        let ok = if exact_regime {
            Q::from_f64(stored.bias[i]) == bias[i]
        } else {
            (stored.bias[i] - bias[i].to_f64()).abs() <= 1e-12 * scale
        };
        if !ok {
            return Err(format!("bias[{}] = {:e} but exact value is {:e}", i, stored.bias[i], bias[i].to_f64()));
        }
    }
    Ok(())
}

pub fn magnitude(n: &SNode) -> f64 {
    n.mat.iter().flatten().chain(n.bias.iter()).fold(1.0f64, |a, b| a.max(b.abs()))
}

pub fn pt_json(x: &[f64]) -> Value {
    json!(x)
}

/// Is y = f(x) (exact) safely away from every hyperplane g tests along its route?
pub fn route_safe_q(s: &Snap, y: &[Q]) -> bool {
    let (_, route) = s.eval_from(s.root, y);
    for (n, _) in route {
        let nd = s.node(n);
        for (row, b) in nd.mat.iter().zip(nd.bias.iter()) {
            let v = dot(&qv(row), y).sub(&Q::from_f64(*b)).to_f64().abs();
            let scale: f64 = row.iter().zip(y.iter()).map(|(a, v)| (a * v.to_f64()).abs()).sum::<f64>() + b.abs();
            if v <= 1e-7 * scale.max(1e-300) {
                return false;
            }
        }
    }
    true
}

// ------------------------------------------------------------------------------------------
// Cells of a binary tree: terminal regions and "missing edge" regions (where it is undefined)

use crate::lpx::{self, Band, Sys};

#[derive(Clone, Debug)]
pub struct Cell {
    /// end node: terminal, or the decision whose branch `missing` does not exist
    pub node: usize,
    pub missing: Option<usize>,
    pub sys: Sys,
}

pub fn cells(s: &Snap) -> Result<Vec<Cell>, String> {
    let mut out = Vec::new();
    for (i, n) in &s.nodes {
        if !n.has_children() {
            out.push(Cell {
                node: *i,
                missing: None,
                sys: s.path_sys(*i)?,
            });
        } else {
            if n.mat.len() != 1 {
                return Err("cells: only single-row decisions".into());
            }
            for l in 0..2 {
                if n.children[l].is_none() {
                    let mut sys = s.path_sys(*i)?;
                    let row = qv(&n.mat[0]);
                    let b = Q::from_f64(n.bias[0]);
                    if l == 1 {
                        sys.push(row, b);
                    } else {
                        sys.push(row.iter().map(|v| v.neg()).collect(), b.neg());
                    }
                    out.push(Cell {
                        node: *i,
                        missing: Some(l),
                        sys,
                    });
                }
            }
        }
    }
    Ok(out)
}

/// classification of a region with its max-slack point as f64 (if thick)
pub fn classify_cell(sys: &Sys) -> Result<(Band, Option<Vec<f64>>, f64), String> {
    let (band, cert) = lpx::classify(sys)?;
    let t = cert.t.to_f64();
    if band == Band::Thick {
        // convert the exact interior point to f64 and make sure it is still strictly inside
        let x: Vec<f64> = cert.x.iter().map(|q| q.to_f64()).collect();
        let xq = qv(&x);
        // strictly inside every genuine half-space (tautological rows 0.x <= b, b >= 0, have no interior side)
        let strictly = sys
            .a
            .iter()
            .zip(sys.slacks(&xq).iter())
            .all(|(row, sl)| if row.iter().all(|v| v.is_zero()) { !sl.is_neg() } else { sl.is_pos() });
        if strictly {
            return Ok((band, Some(x), t));
        }
        return Ok((band, None, t));
    }
    Ok((band, None, t))
}

/// same terminal function (bitwise)
pub fn same_function(a: &SNode, b: &SNode) -> bool {
    a.same_aff(b)
}

/// Semantic comparison of a tree before and after pruning (or pruned vs unpruned construction):
/// (1) the interior point of every thick cell of either tree must be treated identically by both;
/// (2) probe inputs whose end cell in `before` is thick must be treated identically (S5 rule).
/// Returns Err((signature, message)) on a disagreement.
pub fn compare_pruned(before: &Snap, after: &Snap, probes: &[Vec<f64>], ev: &mut crate::ev::Ev) -> Result<(), (String, String)> {
    let same = |x: &[f64]| -> Result<(), String> {
        let xq = qv(x);
        let a = before.eval(&xq);
        let b = after.eval(&xq);
        match (&a, &b) {
            (TEv::Undef(..), TEv::Undef(..)) => Ok(()),
            (TEv::Val(na, va), TEv::Val(nb, vb)) => {
                if va == vb {
                    Ok(())
                } else {
                    Err(format!("x={:?}: value before (node {}) {:?} differs from value after (node {}) {:?}", x, na, va.iter().map(|q| q.to_f64()).collect::<Vec<_>>(), nb, vb.iter().map(|q| q.to_f64()).collect::<Vec<_>>()))
                }
            }
            (TEv::Broken(m), _) | (_, TEv::Broken(m)) => Err(format!("x={:?}: broken tree: {}", x, m)),
            (a, b) => Err(format!("x={:?}: before: {} ; after: {}", x, a.brief(), b.brief())),
        }
    };
    // (1) interior points of thick cells, both directions
    let mut cache: std::collections::BTreeMap<(usize, Option<usize>), Band> = Default::default();
    for (which, tree) in [("before", before), ("after", after)] {
        let cs = cells(tree).map_err(|e| ("cells".to_string(), e))?;
        for c in cs {
            match classify_cell(&c.sys) {
                Ok((Band::Thick, Some(x), _)) => {
                    if which == "before" {
                        cache.insert((c.node, c.missing), Band::Thick);
                    }
                    ev.inc("thick_cells_probed");
                    if let Err(e) = same(&x) {
                        let kind = if c.missing.is_some() { "undefined-region" } else { "terminal-region" };
                        return Err((format!("thick-{}-of-{}", kind, which), format!("interior point of a thick cell of the {} tree (end node {}, missing branch {:?}): {}", which, c.node, c.missing, e)));
                    }
                }
                Ok((b, _, _)) => {
                    if which == "before" {
                        cache.insert((c.node, c.missing), b.clone());
                    }
                    match b {
                        Band::Thin => ev.inc("thin_cells_skipped"),
                        Band::Empty => ev.inc("empty_cells_seen"),
                        Band::Thick => ev.skip("thick cell whose f64 interior point is not strictly inside"),
                    }
                }
                Err(_) => ev.skip("oracle-error"),
            }
        }
    }
    // (2) S5 rule on probe inputs
    for x in probes {
        let xq = qv(x);
        let end = match before.eval(&xq) {
            TEv::Val(n, _) => (n, None),
            TEv::Undef(n, l) => (n, Some(l)),
            TEv::Broken(m) => return Err(("broken-before".into(), m)),
        };
        match cache.get(&end) {
            Some(Band::Thick) => {
                ev.inc("probe_inputs_asserted");
                if let Err(e) = same(x) {
                    return Err(("probe-input".into(), e));
                }
            }
            Some(_) => ev.skip("probe input ends in a thin/empty cell (S5)"),
            None => ev.skip("probe input ends in an unclassified cell"),
        }
    }
    Ok(())
}

/// Like `coeffs_match`, but a decision predicate may be stored as any positive multiple of the exact
/// rows (row by row): `a x <= b` and `(λa) x <= λb`, λ > 0, denote the same half-space, and the
/// property speaks about the function, not the scaling. In the exact regime the multiple must be
/// exactly common to the whole row (otherwise inputs on the hyperplane can be routed differently).
pub fn predicate_matches_up_to_scale(stored: &SNode, mat: &[Vec<Q>], bias: &[Q], exact_regime: bool, scale: f64) -> Result<(), String> {
    if stored.mat.len() != mat.len() || stored.bias.len() != bias.len() {
        return Err(format!("{} rows vs {}", stored.mat.len(), mat.len()));
    }
    for i in 0..mat.len() {
        if stored.mat[i].len() != mat[i].len() {
            return Err(format!("row {} width {} vs {}", i, stored.mat[i].len(), mat[i].len()));
        }
        let mut ex: Vec<Q> = mat[i].clone();
        ex.push(bias[i].clone());
        let mut st: Vec<f64> = stored.mat[i].clone();
        st.push(stored.bias[i]);
        if !exact_regime && st.iter().zip(ex.iter()).all(|(a, e)| (a - e.to_f64()).abs() <= 1e-12 * scale) {
            continue; // unscaled, equal up to rounding
        }
        // float regime: infer the factor from the largest entry (an entry that suffered cancellation
        // would carry a large relative rounding error into the factor)
        let pivot = if exact_regime {
            ex.iter().position(|q| !q.is_zero())
        } else {
            let mut best: Option<usize> = None;
            for (k, q) in ex.iter().enumerate() {
                if !q.is_zero() && best.map_or(true, |b| q.to_f64().abs() > ex[b].to_f64().abs()) {
                    best = Some(k);
                }
            }
            best
        };
        let lambda = match pivot {
            None => {
                if st.iter().all(|v| *v == 0.0) {
                    continue;
                }
                return Err(format!("row {}: exact predicate row is zero but the stored one is not", i));
            }
            Some(k) => Q::from_f64(st[k]).div(&ex[k]),
        };
        if !lambda.is_pos() {
            return Err(format!("row {}: stored predicate is not a positive multiple of the exact one (factor {})", i, lambda.to_f64()));
        }
        for k in 0..ex.len() {
            let want = ex[k].mul(&lambda);
            let ok = if exact_regime { Q::from_f64(st[k]) == want } else { (st[k] - want.to_f64()).abs() <= 2e-12 * scale * lambda.to_f64().max(1.0) };
            if !ok {
                return Err(format!("row {} entry {}: stored {:e}, exact {:e} (times the row factor {:e} = {:e})", i, k, st[k], ex[k].to_f64(), lambda.to_f64(), want.to_f64()));
            }
        }
    }
    Ok(())
}
