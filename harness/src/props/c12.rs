//! C12 — the arena tree stays structurally consistent under any operation sequence.
//!
//! Workload: random sequences over add_child_node / try_remove_child / remove_child /
//! remove_all_descendants / merge_child_with_parent / update_node on Tree<u32,K>, K in {2,3},
//! with valid, stale, occupied, missing and root arguments.
//! Oracle: executable reference model (new indices taken from the real return value) + invariant
//! walker after every op + full-snapshot equality after every Err.

use super::treemodel::*;
use crate::ev::{Ev, Hasher};
use crate::rng::Rng;
use crate::util::lib;
use crate::Ctx;
use affinitree::tree::graph::{NodeError, Tree};
use serde_json::json;

pub fn run_case(ctx: &Ctx, case: u64, ev: &mut Ev) {
    let mut rng = Rng::derive(ctx.seed, "C12", case);
    rng.big = crate::draw_big(ctx, &mut rng);
    if rng.chance(0.5) {
        run::<2>(case, &mut rng, ev);
    } else {
        run::<3>(case, &mut rng, ev);
    }
}

fn errname(e: &NodeError) -> &'static str {
    match e {
        NodeError::InvalidIndex(_) => "InvalidIndex",
        NodeError::MissingChild { .. } => "MissingChild",
        NodeError::MissingParent { .. } => "MissingParent",
        NodeError::NodeExists { .. } => "NodeExists",
        NodeError::ChildExists { .. } => "ChildExists",
        NodeError::RootNode => "RootNode",
        NodeError::NodeNotFound => "NodeNotFound",
    }
}

fn run<const K: usize>(case: u64, rng: &mut Rng, ev: &mut Ev) {
    // 5 %: a tree that grows large (several hundred slab slots) and then shrinks to a few dozen nodes that
    // keep their high indices - arena index far above len()
    let grow_shrink = rng.chance(0.05) && !cfg!(miri); // (too slow under the Miri tier)
    let len = if grow_shrink { 450 + rng.below(350) } else if rng.big { 60 + rng.below(200) } else { 5 + rng.below(56) };
    let mut t = Tree::<u32, K>::new();
    let root = t.add_root(7);
    let mut m = Model::new(K, root, 7);
    let mut dead: Vec<usize> = Vec::new(); // indices that were removed at some point
    let mut next_val: u32 = 100;
    let mut hist: Vec<String> = Vec::new();
    let mut h = Hasher::new();
    h.u(K as u64);
    let mut saw_err = false;
    let mut saw_reuse = false;
    let mut ever_removed: std::collections::BTreeSet<usize> = Default::default();

    macro_rules! fail {
        ($sig:expr, $msg:expr) => {{
            ev.violation(
                case,
                $sig,
                "",
                json!({"K": K, "history": hist, "problem": $msg}),
            );
            ev.evaluations += 1;
            return;
        }};
    }

    for step in 0..len {
        let live: Vec<usize> = m.nodes.keys().cloned().collect();
        let before = tsnap(&t);
        // choose an index: mostly live, sometimes stale / never used
        let pick_idx = |rng: &mut Rng, dead: &Vec<usize>| -> usize {
            let r = rng.unit();
            if r < 0.8 || (dead.is_empty() && r < 0.95) {
                *rng.pick(&live)
            } else if r < 0.95 {
                *rng.pick(dead)
            } else {
                live.iter().max().unwrap() + 1 + rng.below(5)
            }
        };
        let mut op = rng.below(100);
        let mut forced: Option<(usize, usize)> = None;
        if grow_shrink {
            if step < len * 11 / 20 {
                op = rng.below(40); // growth phase: insertions only
            } else if step < len * 16 / 20 && live.len() > 40 {
                // shrink phase: remove old (low-index) subtrees that do not contain the youngest node
                let youngest = *live.iter().max().unwrap();
                let mut anc: std::collections::BTreeSet<usize> = Default::default();
                let mut cur = Some(youngest);
                while let Some(c) = cur {
                    anc.insert(c);
                    cur = m.nodes[&c].parent;
                }
                let cands: Vec<usize> = live.iter().cloned().filter(|i| !anc.contains(i)).take(40).collect();
                if let Some(v) = if cands.is_empty() { None } else { Some(*rng.pick(&cands)) } {
                    if let Some((pp, ll)) = m.label_in_parent(v) {
                        forced = Some((pp, ll));
                        op = 45;
                    }
                }
            }
        }
        if op < 40 {
            // add_child_node
            let p = if grow_shrink && rng.chance(0.7) {
                // prefer a parent with a free slot so that the tree really grows
                let free: Vec<usize> = live.iter().cloned().filter(|i| m.nodes[i].children.iter().any(|c| c.is_none())).collect();
                *rng.pick(&free)
            } else {
                pick_idx(rng, &dead)
            };
            let l = rng.below(K);
            let v = next_val;
            next_val += 1;
            hist.push(format!("add_child_node({}, {}, {})", p, l, v));
            h.s("add");
            let r = match lib(case, "Tree::add_child_node", || t.add_child_node(p, l, v)) {
                Ok(r) => r,
                Err(e) => fail!("c12:add_child_node:panic", e),
            };
            let expect_err = if !m.nodes.contains_key(&p) {
                Some("InvalidIndex")
            } else if m.nodes[&p].children[l].is_some() {
                Some("ChildExists")
            } else {
                None
            };
            match (r, expect_err) {
                (Ok(idx), None) => {
                    if m.nodes.contains_key(&idx) {
                        fail!("c12:add_child_node:index-collision", format!("step {}: returned live index {}", step, idx));
                    }
                    if ever_removed.contains(&idx) {
                        saw_reuse = true;
                    }
                    dead.retain(|d| *d != idx);
                    m.nodes.insert(
                        idx,
                        MNode {
                            value: v,
                            parent: Some(p),
                            children: vec![None; K],
                        },
                    );
                    m.nodes.get_mut(&p).unwrap().children[l] = Some(idx);
                }
                (Err(e), Some(x)) => {
                    saw_err = true;
                    if errname(&e) != x {
                        fail!("c12:add_child_node:wrong-error", format!("step {}: got {} expected {}", step, errname(&e), x));
                    }
                    ev.inc(&format!("err_{}", x));
                }
                (Ok(idx), Some(x)) => fail!("c12:add_child_node:ok-instead-of-err", format!("step {}: Ok({}) expected Err({})", step, idx, x)),
                (Err(e), None) => fail!("c12:add_child_node:err-instead-of-ok", format!("step {}: Err({})", step, errname(&e))),
            }
        } else if op < 60 {
            // try_remove_child / remove_child
            let (p, l) = match forced {
                Some(x) => x,
                None => (pick_idx(rng, &dead), rng.below(K)),
            };
            let expect_err = if !m.nodes.contains_key(&p) {
                Some("InvalidIndex")
            } else if m.nodes[&p].children[l].is_none() {
                Some("MissingChild")
            } else {
                None
            };
            let use_plain = expect_err.is_none() && rng.chance(0.3);
            hist.push(format!("{}({}, {})", if use_plain { "remove_child" } else { "try_remove_child" }, p, l));
            h.s("rm");
            let r = if use_plain {
                match lib(case, "Tree::remove_child", || t.remove_child(p, l)) {
                    Ok(v) => Ok(v),
                    Err(e) => fail!("c12:remove_child:panic", e),
                }
            } else {
                match lib(case, "Tree::try_remove_child", || t.try_remove_child(p, l)) {
                    Ok(r) => r,
                    Err(e) => fail!("c12:try_remove_child:panic", e),
                }
            };
            match (r, expect_err) {
                (Ok(v), None) => {
                    let c = m.nodes[&p].children[l].unwrap();
                    if v != m.nodes[&c].value {
                        fail!("c12:remove_child:wrong-value", format!("step {}: returned {} expected {}", step, v, m.nodes[&c].value));
                    }
                    for i in m.subtree(c) {
                        dead.push(i);
                        ever_removed.insert(i);
                    }
                    m.remove_descendants(c);
                    m.nodes.remove(&c);
                    m.nodes.get_mut(&p).unwrap().children[l] = None;
                }
                (Err(e), Some(x)) => {
                    saw_err = true;
                    if errname(&e) != x {
                        fail!("c12:try_remove_child:wrong-error", format!("step {}: got {} expected {}", step, errname(&e), x));
                    }
                    ev.inc(&format!("err_{}", x));
                }
                (Ok(_), Some(x)) => fail!("c12:try_remove_child:ok-instead-of-err", format!("step {}: expected Err({})", step, x)),
                (Err(e), None) => fail!("c12:try_remove_child:err-instead-of-ok", format!("step {}: Err({})", step, errname(&e))),
            }
        } else if op < 72 {
            // remove_all_descendants
            let i = pick_idx(rng, &dead);
            hist.push(format!("remove_all_descendants({})", i));
            h.s("rad");
            let r = match lib(case, "Tree::remove_all_descendants", || t.remove_all_descendants(i)) {
                Ok(r) => r,
                Err(e) => fail!("c12:remove_all_descendants:panic", e),
            };
            match (r, m.nodes.contains_key(&i)) {
                (Ok(n), true) => {
                    for d in m.subtree(i).into_iter().skip(1) {
                        dead.push(d);
                        ever_removed.insert(d);
                    }
                    let exp = m.remove_descendants(i);
                    if n as usize != exp {
                        fail!("c12:remove_all_descendants:count", format!("step {}: returned {} expected {}", step, n, exp));
                    }
                }
                (Err(_), false) => {
                    saw_err = true;
                    ev.inc("err_InvalidIndex");
                }
                (Ok(n), false) => fail!("c12:remove_all_descendants:ok-instead-of-err", format!("step {}: Ok({}) on stale index", step, n)),
                (Err(_), true) => fail!("c12:remove_all_descendants:err-instead-of-ok", format!("step {}", step)),
            }
        } else if op < 86 {
            // merge_child_with_parent: only callable (without a documented panic) on live nodes with exactly one child
            // one call in eight goes to a node with SEVERAL children: the precondition of the call is violated
            // (the library asserts "exactly one child"); whatever it does - panic or Err - the tree must be
            // unchanged, and it must not report success (no K-ary tree can keep all children of a merged node)
            if rng.chance(0.125) {
                let multi: Vec<usize> = live.iter().cloned().filter(|i| *i != m.root && m.nodes[i].children.iter().flatten().count() >= 2).collect();
                if let Some(p) = if multi.is_empty() { None } else { Some(*rng.pick(&multi)) } {
                    let labels: Vec<usize> = (0..K).filter(|l| m.nodes[&p].children[*l].is_some()).collect();
                    let l = *rng.pick(&labels);
                    hist.push(format!("merge_child_with_parent({}, {}) on a node with {} children", p, l, labels.len()));
                    h.s("merge-multi");
                    match lib(case, "Tree::merge_child_with_parent (several children)", || t.merge_child_with_parent(p, l).map(|n| n.value)) {
                        Ok(Ok(v)) => fail!("c12:merge:ok-on-node-with-several-children", format!("step {}: returned Ok({}) for node {} which has {} children", step, v, p, labels.len())),
                        Ok(Err(_)) => ev.inc("merge_on_multi_child_node_rejected_with_err"),
                        Err(_) => ev.inc("merge_on_multi_child_node_rejected_with_panic"),
                    }
                    saw_err = true;
                    // falls through to the invariant / model comparison below: nothing may have changed
                }
            }
            let cands: Vec<usize> = live
                .iter()
                .cloned()
                .filter(|i| m.nodes[i].children.iter().flatten().count() == 1)
                .collect();
            if cands.is_empty() {
                continue;
            }
            let p = *rng.pick(&cands);
            let only = m.nodes[&p].children.iter().position(|c| c.is_some()).unwrap();
            let l = if rng.chance(0.75) { only } else { rng.below(K) };
            hist.push(format!("merge_child_with_parent({}, {})", p, l));
            h.s("merge");
            let r = match lib(case, "Tree::merge_child_with_parent", || t.merge_child_with_parent(p, l)) {
                Ok(r) => r,
                Err(e) => fail!("c12:merge_child_with_parent:panic", e),
            };
            let expect_err = if p == m.root {
                Some("RootNode")
            } else if m.nodes[&p].children[l].is_none() {
                Some("MissingChild")
            } else {
                None
            };
            match (r, expect_err) {
                (Ok(node), None) => {
                    if node.value != m.nodes[&p].value {
                        fail!("c12:merge:wrong-value", format!("step {}: returned node value {} expected {}", step, node.value, m.nodes[&p].value));
                    }
                    let c = m.nodes[&p].children[l].unwrap();
                    let (gp, gl) = m.label_in_parent(p).unwrap();
                    m.nodes.get_mut(&gp).unwrap().children[gl] = Some(c);
                    m.nodes.get_mut(&c).unwrap().parent = Some(gp);
                    m.nodes.remove(&p);
                    dead.push(p);
                    ever_removed.insert(p);
                }
                (Err(e), Some(x)) => {
                    saw_err = true;
                    if errname(&e) != x {
                        fail!("c12:merge:wrong-error", format!("step {}: got {} expected {}", step, errname(&e), x));
                    }
                    ev.inc(&format!("err_{}", x));
                }
                (Ok(_), Some(x)) => fail!("c12:merge:ok-instead-of-err", format!("step {}: expected Err({})", step, x)),
                (Err(e), None) => fail!("c12:merge:err-instead-of-ok", format!("step {}: Err({})", step, errname(&e))),
            }
        } else {
            // update_node
            let i = pick_idx(rng, &dead);
            let v = next_val;
            next_val += 1;
            hist.push(format!("update_node({}, {})", i, v));
            h.s("upd");
            let r = match lib(case, "Tree::update_node", || t.update_node(i, v)) {
                Ok(r) => r,
                Err(e) => fail!("c12:update_node:panic", e),
            };
            match (r, m.nodes.contains_key(&i)) {
                (Ok(old), true) => {
                    if old != m.nodes[&i].value {
                        fail!("c12:update_node:wrong-old", format!("step {}: returned {} expected {}", step, old, m.nodes[&i].value));
                    }
                    m.nodes.get_mut(&i).unwrap().value = v;
                }
                (Err(_), false) => {
                    saw_err = true;
                    ev.inc("err_InvalidIndex");
                }
                (Ok(_), false) => fail!("c12:update_node:ok-instead-of-err", format!("step {}", step)),
                (Err(_), true) => fail!("c12:update_node:err-instead-of-ok", format!("step {}", step)),
            }
        }
        ev.inc("ops");
        // observe
        let after = tsnap(&t);
        let was_err = hist.len() > 0 && m.diff(&before).is_none() && after != before;
        if let Err(e) = after.wf() {
            fail!(
                &format!("c12:invariant:{}", hist.last().unwrap().split('(').next().unwrap()),
                format!("after step {} ({}): {}", step, hist.last().unwrap(), e)
            );
        }
        if let Some(d) = m.diff(&after) {
            let opname = hist.last().unwrap().split('(').next().unwrap().to_string();
            let kind = if was_err { "changed-after-err" } else { "model-mismatch" };
            fail!(
                &format!("c12:{}:{}", kind, opname),
                format!("after step {} ({}): {}", step, hist.last().unwrap(), d)
            );
        }
        // queries agree with the model
        for i in m.nodes.keys() {
            if !t.contains(*i) {
                fail!("c12:contains", format!("contains({}) false for live node", i));
            }
        }
        for d in &dead {
            if !m.nodes.contains_key(d) && t.contains(*d) {
                fail!("c12:contains-dead", format!("contains({}) true for removed node", d));
            }
        }
    }
    // query battery on the final tree: every link accessor agrees with the model
    for (i, mn) in &m.nodes {
        let ok_basic = t.node_value(*i).ok() == Some(&mn.value)
            && t[*i] == mn.value
            && t.is_root(*i) == (*i == m.root)
            && t.is_leaf(*i).ok() == Some(mn.children.iter().all(|c| c.is_none()))
            && t.num_children(*i) == mn.children.iter().flatten().count();
        if !ok_basic {
            fail!("c12:query:node", format!("node_value / is_root / is_leaf / num_children of node {} disagree with the model", i));
        }
        match (t.parent(*i), m.label_in_parent(*i)) {
            (Ok(e), Some((p, l))) => {
                if e.source_idx != p || e.label != l || e.target_idx != *i || *e.source_value != m.nodes[&p].value || *e.target_value != mn.value {
                    fail!("c12:query:parent", format!("parent({}) = ({} -{}-> {})", i, e.source_idx, e.label, e.target_idx));
                }
            }
            (Err(_), None) => {}
            _ => fail!("c12:query:parent", format!("parent({}) existence differs from the model", i)),
        }
        if let Some((p, l)) = m.label_in_parent(*i) {
            match t.parent_mut(*i) {
                Ok(e) if e.source_idx == p && e.label == l && e.target_idx == *i => {}
                _ => fail!("c12:query:parent_mut", format!("parent_mut({})", i)),
            }
        }
        for l in 0..K {
            match (t.child(*i, l), mn.children[l]) {
                (Ok(e), Some(c)) => {
                    if e.target_idx != c || e.source_idx != *i || e.label != l || *e.target_value != m.nodes[&c].value {
                        fail!("c12:query:child", format!("child({}, {}) = {}", i, l, e.target_idx));
                    }
                    match t.child_mut(*i, l) {
                        Ok(em) if em.target_idx == c && em.source_idx == *i => {}
                        _ => fail!("c12:query:child_mut", format!("child_mut({}, {})", i, l)),
                    }
                }
                (Err(_), None) => {}
                _ => fail!("c12:query:child", format!("child({}, {}) existence differs from the model", i, l)),
            }
        }
        let kids: Vec<(usize, usize)> = t.children(*i).map(|e| (e.label, e.target_idx)).collect();
        let exp: Vec<(usize, usize)> = mn.children.iter().enumerate().filter_map(|(l, c)| c.map(|c| (l, c))).collect();
        if kids != exp {
            fail!("c12:query:children", format!("children({}) = {:?} expected {:?}", i, kids, exp));
        }
    }
    for d in &dead {
        if !m.nodes.contains_key(d) && (t.node_value(*d).is_ok() || t.tree_node(*d).is_ok() || t.parent(*d).is_ok() || t.is_leaf(*d).is_ok()) {
            fail!("c12:query:dead", format!("accessors succeed for removed index {}", d));
        }
    }
    ev.inc("query_batteries");
    ev.evaluations += 1;
    if saw_err || saw_reuse {
        h.u(saw_err as u64);
        h.u(saw_reuse as u64);
        for s in &hist {
            h.s(s);
        }
        ev.nontrivial(h.fin());
    }
    if saw_reuse {
        ev.inc("histories_with_index_reuse");
    }
    if grow_shrink {
        ev.inc("grow_then_shrink_histories");
        if m.nodes.keys().max().map_or(false, |mx| *mx >= 64 * (m.nodes.len() / 64 + 1)) {
            ev.inc("final_trees_with_max_index_far_above_len");
        }
    }
    if saw_err {
        ev.inc("histories_with_err");
    }
    ev.count("final_nodes", m.nodes.len() as u64);
    if ev.want_sample() {
        ev.sample(json!({"K": K, "history": hist, "final_len": m.nodes.len()}));
    }
}
