//! Textbook reference network: exact forward pass and exact enumeration of activation cells.
//! Shares no code with the library's schema trees or builder.

use crate::gen::Aff;
use crate::lpx::Sys;
use crate::q::{dot, qv, Q};
use affinitree::distill::builder::Layer;
use serde_json::{json, Value};

#[derive(Clone, Debug)]
pub enum L {
    Linear(Aff),
    Relu(usize),
    Leaky(usize, f64),
    HardTanh(usize),
    HardSigmoid(usize),
    Argmax,
    ClassChar(usize),
}

pub fn to_lib(layers: &[L]) -> Vec<Layer> {
    layers
        .iter()
        .map(|l| match l {
            L::Linear(a) => Layer::Linear(a.to_lib()),
            L::Relu(i) => Layer::ReLU(*i),
            L::Leaky(i, a) => Layer::LeakyReLU(*i, *a),
            L::HardTanh(i) => Layer::HardTanh(*i),
            L::HardSigmoid(i) => Layer::HardSigmoid(*i),
            L::Argmax => Layer::Argmax,
            L::ClassChar(c) => Layer::ClassChar(*c),
        })
        .collect()
}

pub fn layers_json(layers: &[L]) -> Value {
    Value::Array(
        layers
            .iter()
            .map(|l| match l {
                L::Linear(a) => json!({"linear": a.json()}),
                L::Relu(i) => json!({"relu": i}),
                L::Leaky(i, a) => json!({"leaky_relu": [i, a]}),
                L::HardTanh(i) => json!({"hard_tanh": i}),
                L::HardSigmoid(i) => json!({"hard_sigmoid": i}),
                L::Argmax => json!("argmax"),
                L::ClassChar(c) => json!({"class_char": c}),
            })
            .collect(),
    )
}

/// does the network contain an operation whose textbook definition is not exactly representable
/// in the library's f64 coefficients (hard sigmoid's 1/6)?
pub fn has_inexact_op(layers: &[L]) -> bool {
    layers.iter().any(|l| matches!(l, L::HardSigmoid(_)))
}

/// Textbook forward pass in exact arithmetic.
pub fn eval(layers: &[L], x: &[Q]) -> Vec<Q> {
    let mut v: Vec<Q> = x.to_vec();
    for l in layers {
        match l {
            L::Linear(a) => {
                v = a.mat.iter().zip(a.bias.iter()).map(|(r, b)| dot(&qv(r), &v).add(&Q::from_f64(*b))).collect();
            }
            L::Relu(i) => {
                if v[*i].is_neg() {
                    v[*i] = Q::zero();
                }
            }
            L::Leaky(i, a) => {
                if !v[*i].is_pos() {
                    v[*i] = v[*i].mul(&Q::from_f64(*a));
                }
            }
            L::HardTanh(i) => {
                v[*i] = v[*i].max_q(&Q::int(-1)).min_q(&Q::one());
            }
            L::HardSigmoid(i) => {
                v[*i] = if v[*i].le(&Q::int(-3)) {
                    Q::zero()
                } else if v[*i].ge(&Q::int(3)) {
                    Q::one()
                } else {
                    v[*i].div(&Q::int(6)).add(&Q::frac(1, 2))
                };
            }
            L::Argmax => {
                let mut best = 0;
                for k in 1..v.len() {
                    if v[k].gt(&v[best]) {
                        best = k;
                    }
                }
                v = vec![Q::int(best as i64)];
            }
            L::ClassChar(c) => {
                let is_max = v.iter().all(|t| t.le(&v[*c]));
                v = vec![if is_max { Q::one() } else { Q::zero() }];
            }
        }
    }
    v
}

/// distance of every pre-activation to its breakpoints and of the argmax to a tie, as f64 margins;
/// returns the smallest one (INFINITY if the net has no breakpoints)
pub fn min_margin(layers: &[L], x: &[Q]) -> f64 {
    let mut v: Vec<Q> = x.to_vec();
    let mut m = f64::INFINITY;
    for l in layers {
        match l {
            L::Linear(_) => {}
            L::Relu(i) | L::Leaky(i, _) => m = m.min(v[*i].to_f64().abs()),
            L::HardTanh(i) => m = m.min((v[*i].to_f64() - 1.0).abs()).min((v[*i].to_f64() + 1.0).abs()),
            L::HardSigmoid(i) => m = m.min((v[*i].to_f64() - 3.0).abs()).min((v[*i].to_f64() + 3.0).abs()),
            L::Argmax => {
                let mut s: Vec<f64> = v.iter().map(|q| q.to_f64()).collect();
                s.sort_by(|a, b| b.partial_cmp(a).unwrap());
                if s.len() > 1 {
                    m = m.min(s[0] - s[1]);
                }
            }
            L::ClassChar(c) => {
                let vc = v[*c].to_f64();
                for (k, t) in v.iter().enumerate() {
                    if k != *c {
                        m = m.min((t.to_f64() - vc).abs());
                    }
                }
            }
        }
        v = eval(std::slice::from_ref(l), &v);
    }
    m
}

#[derive(Clone, Debug)]
pub struct QMap {
    pub mat: Vec<Vec<Q>>,
    pub bias: Vec<Q>,
}

impl QMap {
    pub fn identity(n: usize) -> QMap {
        let mut mat = vec![vec![Q::zero(); n]; n];
        for i in 0..n {
            mat[i][i] = Q::one();
        }
        QMap {
            mat,
            bias: vec![Q::zero(); n],
        }
    }
    pub fn then_linear(&self, a: &Aff) -> QMap {
        let n = self.mat.first().map(|r| r.len()).unwrap_or(0);
        let mut mat = Vec::new();
        let mut bias = Vec::new();
        for (r, b) in a.mat.iter().zip(a.bias.iter()) {
            let rq = qv(r);
            let mut row = vec![Q::zero(); n];
            for j in 0..n {
                let col: Vec<Q> = self.mat.iter().map(|m| m[j].clone()).collect();
                row[j] = dot(&rq, &col);
            }
            mat.push(row);
            bias.push(dot(&rq, &self.bias).add(&Q::from_f64(*b)));
        }
        QMap { mat, bias }
    }
}

/// Enumerate the closed activation cells of a network of Linear / ReLU / LeakyReLU / HardTanh /
/// HardSigmoid layers over the closed domain `pre` (None = whole space). Returns the closed
/// polytope of every activation pattern (empty ones included; the caller classifies them).
pub fn cells(layers: &[L], in_dim: usize, pre: Option<&Sys>, cap: usize) -> Option<Vec<Sys>> {
    let start = match pre {
        Some(s) => s.clone(),
        None => Sys::new(in_dim),
    };
    let mut states: Vec<(QMap, Sys)> = vec![(QMap::identity(in_dim), start)];
    for l in layers {
        let mut next = Vec::new();
        for (map, sys) in states.into_iter() {
            match l {
                L::Linear(a) => next.push((map.then_linear(a), sys)),
                L::Relu(i) | L::Leaky(i, _) => {
                    let alpha = if let L::Leaky(_, a) = l { Q::from_f64(*a) } else { Q::zero() };
                    // piece "pre <= 0"
                    let mut s1 = sys.clone();
                    s1.push(map.mat[*i].clone(), map.bias[*i].neg());
                    let mut m1 = map.clone();
                    m1.mat[*i] = m1.mat[*i].iter().map(|v| v.mul(&alpha)).collect();
                    m1.bias[*i] = m1.bias[*i].mul(&alpha);
                    next.push((m1, s1));
                    // piece "pre >= 0"
                    let mut s2 = sys.clone();
                    s2.push(map.mat[*i].iter().map(|v| v.neg()).collect(), map.bias[*i].clone());
                    next.push((map.clone(), s2));
                }
                L::HardTanh(i) | L::HardSigmoid(i) => {
                    let (lo, hi, lo_val, hi_val) = if matches!(l, L::HardTanh(_)) {
                        (Q::int(-1), Q::int(1), Q::int(-1), Q::int(1))
                    } else {
                        (Q::int(-3), Q::int(3), Q::zero(), Q::one())
                    };
                    let zero_row = vec![Q::zero(); map.mat[*i].len()];
                    // pre >= hi
                    let mut s1 = sys.clone();
                    s1.push(map.mat[*i].iter().map(|v| v.neg()).collect(), map.bias[*i].sub(&hi));
                    let mut m1 = map.clone();
                    m1.mat[*i] = zero_row.clone();
                    m1.bias[*i] = hi_val;
                    next.push((m1, s1));
                    // pre <= lo
                    let mut s2 = sys.clone();
                    s2.push(map.mat[*i].clone(), lo.sub(&map.bias[*i]));
                    let mut m2 = map.clone();
                    m2.mat[*i] = zero_row;
                    m2.bias[*i] = lo_val;
                    next.push((m2, s2));
                    // lo <= pre <= hi
                    let mut s3 = sys.clone();
                    s3.push(map.mat[*i].clone(), hi.sub(&map.bias[*i]));
                    s3.push(map.mat[*i].iter().map(|v| v.neg()).collect(), map.bias[*i].sub(&lo));
                    let mut m3 = map.clone();
                    if matches!(l, L::HardSigmoid(_)) {
                        let sixth = Q::frac(1, 6);
                        m3.mat[*i] = m3.mat[*i].iter().map(|v| v.mul(&sixth)).collect();
                        m3.bias[*i] = m3.bias[*i].mul(&sixth).add(&Q::frac(1, 2));
                    }
                    next.push((m3, s3));
                }
                L::Argmax | L::ClassChar(_) => return None,
            }
            if next.len() > cap {
                return None;
            }
        }
        states = next;
    }
    Some(states.into_iter().map(|s| s.1).collect())
}
