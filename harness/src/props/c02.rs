//! C02 — composition law: f.compose(g) is g after f, undefinedness included.
//!
//! Oracle: complete graft-structure audit of h (exact recomputation of every grafted node),
//! independent exact evaluation of f, g, h on the probe set, deep snapshot of g.

use super::common::*;
use crate::ev::{Ev, Hasher};
use crate::gen::{self, Regime, TreeCfg};
use crate::q::{qv, Q};
use crate::rng::Rng;
use crate::snap::{snap, Ev as TEv, Snap};
use crate::util::lib;
use crate::Ctx;
use affinitree::pwl::afftree::AffTree;
use serde_json::json;

pub fn run_case(ctx: &Ctx, case: u64, ev: &mut Ev) {
    let mut rng = Rng::derive(ctx.seed, "C02", case);
    rng.big = crate::draw_big(ctx, &mut rng);
    if rng.chance(0.7) {
        run::<2>(case, &mut rng, ev);
    } else {
        run::<4>(case, &mut rng, ev);
    }
}

fn regime(rng: &mut Rng) -> Regime {
    match rng.below(10) {
        0..=3 => Regime::Int,
        4..=6 => Regime::Dyadic,
        7..=8 => Regime::Short,
        _ => Regime::Full,
    }
}

/// audit the copy of g grafted below former terminal `t` (content before composition) at h node `hi`
fn audit_graft(h: &Snap, g: &Snap, t: &crate::snap::SNode, hi: usize, gi: usize, exact: bool, count: &mut usize) -> Result<(), String> {
    let hn = h.nodes.get(&hi).ok_or(format!("h node {} missing", hi))?;
    let gn = g.node(gi);
    let (mat, bias) = if gn.has_children() { exact_update_decision(gn, t) } else { exact_update_terminal(gn, t) };
    let scale = magnitude(gn) * magnitude(t) * (1.0 + t.mat.len() as f64);
    if gn.has_children() {
        predicate_matches_up_to_scale(hn, &mat, &bias, exact, scale).map_err(|e| format!("h node {} (copy of decision {} of g): {}", hi, gi, e))?;
    } else {
        coeffs_match(hn, &mat, &bias, exact, scale).map_err(|e| format!("h node {} (copy of terminal {} of g): {}", hi, gi, e))?;
    }
    if hn.children.len() != gn.children.len() {
        return Err("branching factor changed".into());
    }
    for l in 0..gn.children.len() {
        match (gn.children[l], hn.children[l]) {
            (None, None) => {}
            (Some(gc), Some(hc)) => {
                *count += 1;
                audit_graft(h, g, t, hc, gc, exact, count)?;
            }
            (None, Some(hc)) => return Err(format!("h node {} has child {} under label {} where g node {} has none", hi, hc, l, gi)),
            (Some(gc), None) => return Err(format!("h node {} lacks the child under label {} (g node {} has child {})", hi, l, gi, gc)),
        }
    }
    Ok(())
}

fn run<const K: usize>(case: u64, rng: &mut Rng, ev: &mut Ev) {
    let rg = regime(rng);
    let n = 1 + rng.below(3);
    let m = 1 + rng.below(3);
    let p = 1 + rng.below(3);
    let mut cf = TreeCfg::basic(K, n, m, rg);
    cf.max_depth = rng.below(if rng.big { 6 } else { 4 });
    cf.allow_leaf_root = true;
    cf.p_missing = if rng.chance(0.4) { 0.25 } else { 0.0 };
    cf.p_contra = if rng.chance(0.3) { 0.4 } else { 0.0 };
    let mut cg = TreeCfg::basic(K, m, p, rg);
    cg.max_depth = rng.below(if rng.big { 5 } else { 4 });
    cg.allow_leaf_root = true;
    cg.p_missing = if rng.chance(0.4) { 0.25 } else { 0.0 };
    let mut fs = gen::spec(rng, &cf);
    let mut gs = gen::spec(rng, &cg);
    // 8 % (exact regimes): f works in other units - f' = s.f and g' = g(./s) with s a power of two between
    // 2^-40 and 2^30; g'(f'(x)) = g(f(x)), but the composed predicates have coefficients of magnitude s
    if rg.is_exact() && rng.chance(0.08) {
        let sc = 2f64.powi(*rng.pick(&[-40, -30, -20, 20, 30]));
        fs.scale_output(sc);
        gs.scale_input(sc);
        ev.inc("cases_with_rescaled_units");
    }
    let scr_f = rng.chance(0.5);
    let mut f = gen::build::<K>(&fs, rng, scr_f);
    let scr_g = rng.chance(0.5);
    let mut g = gen::build::<K>(&gs, rng, scr_g);
    if K == 2 && rng.chance(0.25) {
        // the right operand may carry cached feasibility states of its own
        if lib(case, "infeasible_elimination (setup of g)", || {
            g.infeasible_elimination();
        })
        .is_err()
            || snap(&g).wf_aff(None).is_err()
        {
            ev.skip("setup of g failed (C03/C04's subject)");
            return;
        }
    }
    ev.evaluations += 1;
    // give f cached feasibility states sometimes (binary trees only)
    let mut cached = false;
    if K == 2 && rng.chance(0.3) {
        if let Err(pm) = lib(case, "infeasible_elimination (setup)", || {
            f.infeasible_elimination();
        }) {
            ev.skip(&format!("setup panic {}", pm));
            return;
        }
        cached = true;
        if snap(&f).wf_aff(None).is_err() {
            ev.skip("setup (infeasible_elimination) produced a malformed f: C03/C04's subject");
            return;
        }
    }
    let f_before = snap(&f);
    let g_before = snap(&g);
    let desc = json!({"K": K, "regime": rg.name(), "f": f_before.to_json(), "g": g_before.to_json()});
    let exact = rg.is_exact();

    macro_rules! fail {
        ($sig:expr, $msg:expr) => {{
            ev.violation(case, $sig, "", json!({"case": desc, "problem": $msg}));
            return;
        }};
    }

    let mut h = f.clone();
    // the VERBOSE variant only adds a (hidden) progress bar; it must build the same tree
    let verbose = rng.chance(0.1);
    if let Err(pm) = lib(case, "compose::<false,_>", || if verbose { h.compose::<false, true>(&g) } else { h.compose::<false, false>(&g) }) {
        fail!("c02:compose:panic", pm);
    }
    if verbose {
        ev.inc("verbose_variant_cases");
    }
    let hs = snap(&h);
    let g_after = snap(&g);
    if g_after != g_before {
        fail!("c02:right-operand-changed", "g differs after f.compose(g)".to_string());
    }
    if let Err(e) = hs.wf_tree() {
        fail!("c02:result-malformed", e);
    }
    // ---- structural audit
    let f_terms = f_before.terminals();
    let expect_len = f_before.nodes.len() + f_terms.len() * (g_before.nodes.len() - 1);
    for (i, fnode) in &f_before.nodes {
        let hn = match hs.nodes.get(i) {
            Some(n) => n,
            None => fail!("c02:index-lost", format!("index {} of f is missing in the result", i)),
        };
        if fnode.has_children() {
            if !hn.same_aff(fnode) || hn.children != fnode.children || hn.parent != fnode.parent {
                fail!("c02:decision-changed", format!("decision {} of f was altered by the composition", i));
            }
        } else {
            if hn.parent != fnode.parent {
                fail!("c02:terminal-moved", format!("former terminal {} has a different parent", i));
            }
            let mut cnt = 0usize;
            if let Err(e) = audit_graft(&hs, &g_before, fnode, *i, g_before.root, exact, &mut cnt) {
                fail!("c02:graft", format!("below former terminal {}: {}", i, e));
            }
            if cnt != g_before.nodes.len() - 1 {
                fail!("c02:graft-size", format!("below former terminal {}: {} grafted nodes, g has {} below its root", i, cnt, g_before.nodes.len() - 1));
            }
            ev.inc("grafts_audited");
        }
    }
    if hs.nodes.len() != expect_len {
        fail!("c02:size", format!("|h| = {} expected |f| + |T_f|(|g|-1) = {}", hs.nodes.len(), expect_len));
    }
    // ---- functional check on probe inputs
    let pts = gen::probes(rng, &[&f_before, &hs], n, 60);
    let mut n_undef = 0;
    let mut n_boundary = 0;
    for x in &pts {
        let xq = qv(x);
        let fx = f_before.eval(&xq);
        // float regimes: h's stored coefficients are rounded products; a rigorous bound on the effect
        // of that rounding on every decision of g along the route decides whether x can be asserted
        let mut val_tol: Vec<f64> = Vec::new();
        let expect: TEv = match &fx {
            TEv::Val(tn, y) => {
                let gy = g_before.eval(y);
                if !exact {
                    let t = f_before.node(*tn);
                    // magnitude of the terms behind component i of y = M x + c
                    let ymag: Vec<f64> = (0..t.mat.len())
                        .map(|i| t.mat[i].iter().zip(x.iter()).map(|(m, v)| (m * v).abs()).sum::<f64>() + t.bias[i].abs())
                        .collect();
                    let (_, route) = g_before.eval_from(g_before.root, y);
                    let mut safe = true;
                    for (gn, _) in &route {
                        let nd = g_before.node(*gn);
                        for (row, b) in nd.mat.iter().zip(nd.bias.iter()) {
                            let bound: f64 = row.iter().zip(ymag.iter()).map(|(a, m)| a.abs() * m).sum::<f64>() + b.abs();
                            let v = crate::q::dot(&qv(row), y).sub(&crate::q::Q::from_f64(*b)).to_f64().abs();
                            if v <= 1e-12 * bound {
                                safe = false;
                            }
                        }
                    }
                    if !safe {
                        ev.skip("f(x) within the rounding error bound of a hyperplane of g (float regime)");
                        continue;
                    }
                    if let TEv::Val(gt, _) = &gy {
                        let nd = g_before.node(*gt);
                        for (row, b) in nd.mat.iter().zip(nd.bias.iter()) {
                            val_tol.push(1e-12 * (row.iter().zip(ymag.iter()).map(|(a, m)| a.abs() * m).sum::<f64>() + b.abs()) + 1e-300);
                        }
                    }
                }
                gy
            }
            TEv::Undef(a, b) => TEv::Undef(*a, *b),
            TEv::Broken(b) => {
                ev.skip(&format!("generated f is broken: {}", b));
                continue;
            }
        };
        let hx = hs.eval(&xq);
        match (&expect, &hx) {
            (TEv::Val(_, a), TEv::Val(_, b)) => {
                for i in 0..a.len().max(b.len()) {
                    let ok = a.len() == b.len()
                        && if exact {
                            a[i] == b[i]
                        } else {
                            (a[i].to_f64() - b[i].to_f64()).abs() <= val_tol.get(i).cloned().unwrap_or(0.0)
                        };
                    if !ok {
                        fail!("c02:value", format!("x={:?}: h(x)={:?} but g(f(x))={:?}", x, b.iter().map(|q| q.to_f64()).collect::<Vec<_>>(), a.iter().map(|q| q.to_f64()).collect::<Vec<_>>()));
                    }
                }
            }
            (TEv::Undef(..), TEv::Undef(..)) => {
                n_undef += 1;
            }
            (a, b) => {
                fail!("c02:definedness", format!("x={:?}: h(x) is {} but g(f(x)) is {}", x, b.brief(), a.brief()));
            }
        }
        // the library's own evaluation of h agrees with the exact walk
        match lib_vs_exact(&h, &hs, x, case) {
            Ok((_, skipped)) => {
                if skipped {
                    ev.skip("library evaluate not compared: rounding-unsafe route");
                }
            }
            Err(e) => fail!("c02:evaluate", e),
        }
        ev.inc("inputs_checked");
        if exact {
            n_boundary += 1;
        }
    }
    ev.count("undefined_inputs_agreed", n_undef);
    let _ = n_boundary;

    // ---- apply_func(a) is the special case of an affine g
    {
        let a = gen::aff(rng, p, m, rg);
        let mut h2 = f.clone();
        if let Err(pm) = lib(case, "apply_func", || h2.apply_func(&a.to_lib())) {
            fail!("c02:apply_func:panic", pm);
        }
        let h2s = snap(&h2);
        if h2s.nodes.len() != f_before.nodes.len() {
            fail!("c02:apply_func:size", "apply_func changed the number of nodes".to_string());
        }
        let an = crate::snap::SNode {
            mat: a.mat.clone(),
            bias: a.bias.clone(),
            parent: None,
            children: vec![None; K],
            isleaf: true,
            state: crate::snap::SState::Indet,
        };
        for (i, fnode) in &f_before.nodes {
            let hn = &h2s.nodes[i];
            if hn.children != fnode.children || hn.parent != fnode.parent {
                fail!("c02:apply_func:structure", format!("node {} links changed", i));
            }
            if fnode.has_children() {
                if !hn.same_aff(fnode) {
                    fail!("c02:apply_func:decision", format!("decision {} was altered by apply_func", i));
                }
            } else {
                let (mat, bias) = exact_update_terminal(&an, fnode);
                if let Err(e) = coeffs_match(hn, &mat, &bias, exact, magnitude(&an) * magnitude(fnode) * (1.0 + m as f64)) {
                    fail!("c02:apply_func:terminal", format!("terminal {}: {}", i, e));
                }
            }
        }
        ev.inc("apply_func_audited");
    }

    let nontrivial = (f_before.decisions().len() >= 1 && g_before.decisions().len() >= 1) || cf.p_missing > 0.0 || cg.p_missing > 0.0;
    if nontrivial {
        let mut hh = Hasher::new();
        hh.u(f_before.structural_hash());
        hh.u(g_before.structural_hash());
        ev.nontrivial(hh.fin());
    }
    if K == 4 {
        ev.inc("k4_cases");
    }
    if !f_before.node(f_before.root).has_children() || !g_before.node(g_before.root).has_children() {
        ev.inc("leaf_rooted_operand_cases");
    }
    if cached {
        ev.inc("cached_state_cases");
    }
    if ev.want_sample() {
        ev.sample(json!({"K": K, "regime": rg.name(), "f_nodes": f_before.nodes.len(), "g_nodes": g_before.nodes.len(), "h_nodes": hs.nodes.len(), "f": f_before.to_json()}));
    }
    let _ = Q::zero();
}

#[allow(dead_code)]
fn _k(_: &AffTree<2>) {}
