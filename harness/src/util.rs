//! Panic capture, write-ahead markers for abort detection, guarded library calls.

use std::cell::RefCell;
use std::fs::File;
use std::io::{Seek, SeekFrom, Write};
use std::path::{Path, PathBuf};

thread_local! {
    static LAST_PANIC: RefCell<Option<String>> = RefCell::new(None);
    static WAL: RefCell<Option<File>> = RefCell::new(None);
    static IN_LIB: RefCell<Option<String>> = RefCell::new(None);
}

pub fn install_panic_hook() {
    std::panic::set_hook(Box::new(|info| {
        let loc = info
            .location()
            .map(|l| format!("{}:{}", l.file(), l.line()))
            .unwrap_or_default();
        let msg = if let Some(s) = info.payload().downcast_ref::<&str>() {
            s.to_string()
        } else if let Some(s) = info.payload().downcast_ref::<String>() {
            s.clone()
        } else {
            "<non-string panic>".to_string()
        };
        let full = format!("{} @ {}", msg, loc);
        LAST_PANIC.with(|p| *p.borrow_mut() = Some(full.clone()));
        // record in the write-ahead log so that an abort following this panic can be attributed
        let inlib = IN_LIB.with(|l| l.borrow().clone());
        if let Some(what) = inlib {
            wal(&format!("PANIC-IN-LIB {} :: {}", what, full));
        }
    }));
}

pub fn take_panic() -> String {
    LAST_PANIC.with(|p| p.borrow_mut().take()).unwrap_or_else(|| "<unknown>".into())
}

pub fn wal_open(dir: &Path, thread: usize) {
    let f = File::create(dir.join(format!("wal-{}", thread))).ok();
    WAL.with(|w| *w.borrow_mut() = f);
}

pub fn wal(text: &str) {
    WAL.with(|w| {
        if let Some(f) = w.borrow_mut().as_mut() {
            let _ = f.seek(SeekFrom::Start(0));
            let mut s = text.replace('\n', " ");
            s.truncate(900);
            let _ = writeln!(f, "{:<900}", s);
            let _ = f.flush();
        }
    });
}

/// After an abnormal worker death: find a thread whose last marker is a panic inside a library call.
pub fn wal_find_abort(dir: &Path) -> Option<(u64, String)> {
    let mut files: Vec<PathBuf> = std::fs::read_dir(dir)
        .ok()?
        .filter_map(|e| e.ok().map(|e| e.path()))
        .filter(|p| p.file_name().map_or(false, |n| n.to_string_lossy().starts_with("wal-")))
        .collect();
    files.sort();
    for f in files {
        if let Ok(s) = std::fs::read_to_string(&f) {
            let line = s.lines().next().unwrap_or("").trim().to_string();
            // a library call running on a deliberately small thread stack (stack overflow = SIGSEGV, no panic hook)
            if let Some(rest) = line.strip_prefix("IN-SMALL-STACK-THREAD ") {
                let case = rest
                    .split_whitespace()
                    .next()
                    .and_then(|t| t.strip_prefix("case="))
                    .and_then(|t| t.parse::<u64>().ok())
                    .unwrap_or(0);
                return Some((case, format!("{} (process died while this ran: stack overflow or abort)", rest.trim())));
            }
            if let Some(rest) = line.strip_prefix("PANIC-IN-LIB ") {
                // format: case=<n> <what> :: msg
                let case = rest
                    .split_whitespace()
                    .next()
                    .and_then(|t| t.strip_prefix("case="))
                    .and_then(|t| t.parse::<u64>().ok())
                    .unwrap_or(0);
                return Some((case, rest.to_string()));
            }
        }
    }
    None
}

/// Run a library call; a panic is caught and returned as Err(message @ location).
/// `what` identifies the call site (used in violation signatures and abort attribution).
pub fn lib<T>(case: u64, what: &str, f: impl FnOnce() -> T) -> Result<T, String> {
    IN_LIB.with(|l| *l.borrow_mut() = Some(format!("case={} {}", case, what)));
    let r = std::panic::catch_unwind(std::panic::AssertUnwindSafe(f));
    IN_LIB.with(|l| *l.borrow_mut() = None);
    match r {
        Ok(v) => Ok(v),
        Err(_) => {
            // if the LP hook is armed, the query that was inside the solver when it panicked
            let q = affinitree::verif::pending_query().map(|(m, b, c)| {
                serde_json::json!({
                    "mat": m.outer_iter().map(|r| r.to_vec()).collect::<Vec<_>>(),
                    "bias": b.to_vec(),
                    "cost": c.to_vec(),
                })
            });
            PENDING_LP.with(|l| *l.borrow_mut() = q);
            Err(take_panic())
        }
    }
}

thread_local! {
    static PENDING_LP: std::cell::RefCell<Option<serde_json::Value>> = std::cell::RefCell::new(None);
}

/// LP query that was being solved when the last caught panic happened (needs an armed hook)
pub fn take_pending_lp() -> Option<serde_json::Value> {
    PENDING_LP.with(|l| l.borrow_mut().take())
}

/// arms the LP hook without faults or log for the lifetime of the guard (panic diagnostics)
pub struct HookGuard;
impl HookGuard {
    pub fn new() -> HookGuard {
        affinitree::verif::arm(Default::default(), None, false);
        HookGuard
    }
}
impl Drop for HookGuard {
    fn drop(&mut self) {
        let _ = affinitree::verif::disarm();
    }
}

/// strip line numbers / concrete values from a panic message so that it can serve as a signature
pub fn panic_sig(msg: &str) -> String {
    let loc = msg.rsplit(" @ ").next().unwrap_or("");
    let file = loc.rsplit('/').next().unwrap_or(loc);
    let file = file.split(':').next().unwrap_or(file);
    let head: String = msg
        .split(" @ ")
        .next()
        .unwrap_or("")
        .chars()
        .filter(|c| !c.is_ascii_digit())
        .take(60)
        .collect();
    format!("{}|{}", file, head)
}

static WORKDIR: std::sync::OnceLock<PathBuf> = std::sync::OnceLock::new();

pub fn set_workdir(p: &Path) {
    let _ = WORKDIR.set(p.to_path_buf());
}

/// scratch directory of this run (removed by the supervisor); falls back to the system temp dir
pub fn workdir() -> PathBuf {
    WORKDIR.get().cloned().unwrap_or_else(std::env::temp_dir)
}
