#!/usr/bin/env python3
"""Regenerates /verif/MANIFEST.json from the table below (single source of truth)."""
import json, os, subprocess
ROOT = os.path.dirname(os.path.dirname(os.path.abspath(__file__)))

def repo_commits():
    out = subprocess.run(["git", "-C", "/repo", "log", "--format=%h %s"], capture_output=True, text=True).stdout
    return [l.split()[0] for l in out.splitlines() if "instrumentation hook" in l]

CHECKS = {
 "C12": dict(cat="exploration", design="§4 C12",
   text="Random operation histories on the arena tree are executed against the real Tree<u32,K>; after every operation a reference model, an invariant walker and (after Err) a full before/after snapshot comparison observe the result. Held = no disagreement on the histories listed in the evidence; the quantifier (all sequences) is sampled, not exhausted.",
   note="Trusted: the 150-line reference model and the walker in harness/src/props/treemodel.rs; slab's allocation order is not modelled (fresh index taken from the return value).",
   tech="runtime monitoring: reference-model + invariant-walker oracle over random op histories"),
 "C13": dict(cat="exploration", design="§4 C13",
   text="Every traversal (DfsPre, DfsEdge, Bfs, PolyhedraIter) is run from every node of random trees with random and repeated skip_subtree calls and compared item by item with reference traversals; size_hint is checked after every call against the true number of remaining items; all metrics are recomputed directly.",
   note="Trusted: reference traversals in harness/src/props/c13.rs; skip before the first item is not generated (property speaks of 'the last returned item').",
   tech="runtime monitoring: reference traversal oracle, size_hint bracket at every step"),
}
ALL = ["C%02d" % i for i in range(1, 20)]
NA_REASON = {}

def main():
    checks = []
    for pid in ALL:
        if pid not in CHECKS:
            continue
        c = CHECKS[pid]
        checks.append({
            "property_id": pid,
            "quick_cmd": "./check %s quick" % pid,
            "thorough_cmd": "./check %s thorough" % pid,
            "evidence_file": "/verif/evidence/%s.json" % pid,
            "replay_cmd_template": "./check %s --replay {path}" % pid,
            "engine": "vmon",
            "level_claimed": {"category": c["cat"], "text": c["text"], "design_ref": c["design"]},
            "level_note": c["note"],
            "technique": c["tech"],
        })
    na = [{"property_id": p, "reason": NA_REASON.get(p, "monitor not yet registered in this revision of /verif (under construction, see DESIGN.md §11)")} for p in ALL if p not in CHECKS]
    man = {
        "version": 1,
        "setup_cmd": "./check --setup",
        "hooks": {
            "guard": "--cfg affinitree_verif",
            "enable": "harness/.cargo/config.toml sets rustflags = [\"--cfg\", \"affinitree_verif\"]; the harness crate path-depends on /repo, so every ./check rebuilds affinitree from /repo's working tree with the hook compiled in",
            "baseline_off_cmd": "cd /repo && cargo nextest run --workspace --no-fail-fast --tool-config-file pb:/w/lib/nextest.toml --profile pb --test-threads 8 --offline || cargo test --workspace --no-fail-fast --offline",
            "source_commits": repo_commits(),
            "add_only": True,
        },
        "engines": [{"name": "vmon", "path": "/verif/harness", "serves_properties": sorted(CHECKS.keys()),
                     "kind_free_text": "Rust harness linking the real affinitree crate: seeded hostile workloads, exact-rational oracles (BigInt simplex with verified certificates, independent tree evaluator, reference models), LP hook log / fault injection"}],
        "checks": checks,
        "not_applicable": na,
        "notes": "All checks are runtime monitors over executions of the real library. Exit 0 = held on everything explored (KNOWN-FINDING lines allowed), 1 = VIOLATION line(s), 2 = INCONCLUSIVE (build failure, watchdog, nothing observed). VERIF_SEED selects the workload.",
    }
    with open(os.path.join(ROOT, "MANIFEST.json"), "w") as f:
        json.dump(man, f, indent=1)
        f.write("\n")

if __name__ == "__main__":
    main()
