#!/usr/bin/env python3
"""Regenerates /verif/MANIFEST.json from the table below (single source of truth)."""
import json, os, subprocess
ROOT = os.path.dirname(os.path.dirname(os.path.abspath(__file__)))

def repo_commits():
    out = subprocess.run(["git", "-C", "/repo", "log", "--format=%h %s"], capture_output=True, text=True).stdout
    return [l.split()[0] for l in out.splitlines() if "instrumentation hook" in l or l.split(" ", 1)[1].startswith("verif hook:")][::-1]

CHECKS = {
 "C01": dict(cat="exploration", design="§4 C01",
   text="Random small networks with random preconditions are distilled by the real builder; the resulting tree is observed on hundreds of structured inputs per case (every cell of the tree, every full-dimensional activation cell of the reference network, points exactly on breakpoints, ties and precondition faces) by an independent exact-rational walk and compared with an independent exact forward pass of the textbook network. Held = no disagreement on the nets/inputs listed in the evidence.",
   note="Trusted: refnet.rs (textbook forward pass), snap.rs (exact walk of raw nodes), q.rs. Float regimes compare at 1e-9 away from breakpoints; exact regimes are bit-exact. Thin preconditions are not asserted.",
   tech="runtime monitoring: differential oracle (exact reference network) on structured inputs"),
 "C02": dict(cat="exploration", design="§4 C02",
   text="Random tree pairs (K=2 and K=4, total/partial, terminal-rooted, cached states) are composed by the real code; a complete structural audit recomputes every grafted node in exact rationals and an exact walk of f, g and h is compared on structured inputs incl. hyperplane points; g is snapshotted before/after.",
   note="Trusted: snap.rs evaluator, common.rs exact update formulas. Float regimes skip inputs within rounding distance of a hyperplane.",
   tech="runtime monitoring: complete graft-structure audit + exact evaluator oracle"),
 "C03": dict(cat="exploration", design="§4 C03",
   text="Trees with operation histories (cached feasibility states) are pruned by infeasible_elimination, by pruned composition and by the arithmetic operators; every removed node is audited with an exact emptiness classification (certified simplex), and the function is compared on the interior point of every thick cell and on probe inputs ending in thick cells.",
   note="Trusted: lpx.rs (answers re-checked by the certificate verifier), snap.rs. Thin band |t*|<1e-4 is skipped, never asserted.",
   tech="runtime monitoring: before/after exact evaluation + removed-node audit with LP certificates"),
 "C04": dict(cat="exploration", design="§4 C04",
   text="Random operation histories from all constructors run against the real library with a well-formedness walker, an exact step-wise functional model and panic/abort detection after every step, plus a usability battery at the end. Also: chains of 60 000 - 300 000 decisions on a 2 MiB thread stack (stack overflow = abort attributed through the write-ahead marker), VERBOSE variants of compose, far-translated constructors, and the stored regression tree of repaired defect D11.",
   note="Trusted: hist.rs type model and exact step model, snap.rs walkers. Aborts are attributed through write-ahead markers by the supervisor.",
   tech="runtime monitoring: invariant walker + step-wise reference model over random histories, panic/abort detection"),
 "C05": dict(cat="exploration", design="§4 C05",
   text="Elimination-heavy histories are executed and after every step every cached witness is checked for exact membership in the exact path polytope of its node and every Infeasible mark for exact non-thickness; mirror_points is called directly on hostile polytopes and its results checked exactly.",
   note="Trusted: snap.rs path polytopes, lpx.rs. A Feasible mark on an empty region is not counted as unsound.",
   tech="runtime monitoring: cache-soundness invariant checked at every quiescent point of random histories"),
 "C06": dict(cat="exploration", design="§4 C06",
   text="Total trees with planted infeasible paths and cached states are pruned; every surviving path is classified exactly, single-branch decisions are scanned, a second run is diffed structurally, and for distilled nets the terminal count is bracketed by exact activation-region counts from the reference network.",
   note="Trusted: lpx.rs, refnet.rs cell enumeration. Thin band skipped.",
   tech="runtime monitoring: exact post-condition audit (emptiness, idempotence, region counts)"),
 "C07": dict(cat="exploration", design="§4 C07",
   text="Random tree/tree and tree/affine pairs are combined with all four operators in all ownership forms; per input the terminals reached in the operands determine the expected terminal bit-for-bit and the expected definedness (S5 thick-cell rule since the operators prune).",
   note="Trusted: snap.rs evaluator. Divisors are generated non-zero.",
   tech="runtime monitoring: per-input differential oracle recomputed from the operands"),
 "C08": dict(cat="exploration", design="§4 C08",
   text="Trees seeded with equal siblings at several levels and near-miss siblings are reduced; exact evaluation before/after with no tolerance, an independent reference reduce, idempotence and a leftover scan observe the result.",
   note="Trusted: reference reduce in c08.rs, snap.rs evaluator.",
   tech="runtime monitoring: reference implementation + exact evaluator oracle"),
 "C09": dict(cat="exploration", design="§4 C09",
   text="Random binary trees with scrambled arenas: the polyhedra() stream (with and without skips) is compared with exact path rows, find_terminal with the exact walk, routing vs reported regions in both directions, pairwise exact interior-disjointness of terminal regions and lattice cover for total trees.",
   note="Trusted: snap.rs path rows, lpx.rs.",
   tech="runtime monitoring: reference traversal + exact region/routing consistency oracle"),
 "C10": dict(cat="exploration", design="§4 C10",
   text="Generated LP instances of every special class, Chebyshev programs with rational data, and every LP the library solves while pruning (hook log) are refereed by an exact simplex whose answers are re-checked by an independent certificate verifier. Also: regression instances of repaired defects D10 (solver panic) and D12 (false Infeasible on rows of mixed magnitude), badly scaled / huge-magnitude / 0 x n classes.",
   note="Trusted: lpx.rs verifier (~60 lines of dot products and sign checks). Known finding K1 (minilp false 'unbounded') is recognised only when minilp called directly reports unbounded on the same LP.",
   tech="runtime monitoring: exact LP oracle with certificates over generated and logged queries"),
 "C11": dict(cat="fault_enumeration", design="§4 C11",
   text="For each case the LP hook first counts the N calls of the fault-free run, then every single-fault plan (N positions x 4 fault kinds) plus random multi-fault and all-faulty plans are injected into infeasible_elimination, pruned composition and tree addition; each faulty run is checked for panics, function preservation on thick cells, cache soundness and well-formedness.",
   note="Trusted: the hook in /repo/src/verif.rs (fault application), C03/C05 oracles. Faults model the failure modes the code anticipates; real HiGHS behaviour is not observable here.",
   tech="runtime monitoring with fault injection: exhaustive single-fault enumeration per case at the LP hook"),
 "C12": dict(cat="exploration", design="§4 C12",
   text="Random operation histories on the arena tree are executed against the real Tree<u32,K>; after every operation a reference model, an invariant walker and (after Err) a full before/after snapshot comparison observe the result. Also: histories that grow to several hundred slots and shrink again (arena index far above len()), and merge calls whose precondition is violated.",
   note="Trusted: the reference model and walker in treemodel.rs; slab's allocation order is not modelled (fresh index taken from the return value).",
   tech="runtime monitoring: reference-model + invariant-walker oracle over random op histories"),
 "C13": dict(cat="exploration", design="§4 C13",
   text="Every traversal (DfsPre, DfsEdge, Bfs, PolyhedraIter) is run from every node of random trees with random and repeated skip_subtree calls and compared item by item with reference traversals; size_hint is checked after every call against the true number of remaining items; all metrics are recomputed directly. Also: metrics re-queried after reshaping the same tree, and a comb of 80 000 - 400 000 levels measured on a 2 MiB thread stack.",
   note="Trusted: reference traversals in c13.rs; skip before the first item is not generated.",
   tech="runtime monitoring: reference traversal oracle, size_hint bracket at every step"),
 "C14": dict(cat="exploration", design="§4 C14",
   text="Every polytope transformation and constructor is executed on random polytopes, maps (unimodular with exact inverse, signed permutations, 3-4-5 rotations) and dimensions; membership of lattice and exactly-on-boundary points in the result is compared with exact membership of the pre-image in the operands.",
   note="Trusted: exact membership in c14.rs. Exact regime so that contains()' 1e-8 tolerance cannot blur verdicts.",
   tech="runtime monitoring: exact semantic membership oracle"),
 "C15": dict(cat="exploration", design="§4 C15",
   text="Constraint systems rich in duplicates, scalings, zero rows and equality pairs go through every clean-up operation; results must be row subsequences and denote exactly the same set (two-way inclusion by certified simplex); survivors of the redundancy remover are tested for being implied by a margin.",
   note="Trusted: lpx.rs. Known finding K1 explains rows kept because minilp reports unbounded.",
   tech="runtime monitoring: exact set-equality oracle with LP certificates"),
 "C16": dict(cat="exploration", design="§4 C16",
   text="Every operator form, combinator, conversion and named constructor of AffFunc is executed on random functions in dims 1..5 and compared with its defining identity evaluated in exact rationals (bit-equality for coefficient-wise operators).",
   note="Trusted: q.rs. Coefficients are normal floats as from_mats demands.",
   tech="runtime monitoring: exact algebraic-identity oracle"),
 "C17": dict(cat="exploration", design="§4 C17",
   text="All schema generators over the parameter grid x dims x rows are evaluated on the complete breakpoint/tie product lattice (dims <= 4) and random points against textbook definitions; from_poly and from_slice+remove_axes are checked against exact membership / the embedded evaluation.",
   note="Trusted: textbook definitions in c17.rs (PyTorch conventions).",
   tech="runtime monitoring: textbook-definition oracle on breakpoint lattices"),
 "C18": dict(cat="exploration", design="§4 C18",
   text="Random Architecture call sequences (valid and invalid) are checked against a shape model, every accepted architecture is distilled under catch_unwind and compared with the reference network, every split point is composed and compared with the whole, and npz files written in the shipped dialect are read back and compared layer by layer.",
   note="Trusted: shape model in c18.rs, refnet.rs, ndarray-npy's writer.",
   tech="runtime monitoring: shape-model oracle + differential distillation + file round trip"),
 "C19": dict(cat="exploration", design="§4 C19",
   text="Random matrices under the whole FormatOptions product and random trees (Display, Dot) are rendered and the output is parsed back; every shown coefficient/index pair, bias, truth symbol, node and edge statement is compared with the stored object and every omission must be marked by an ellipsis.",
   note="Trusted: the small parser in c19.rs. Shape/style attributes of DOT are not part of the property.",
   tech="runtime monitoring: parse-back oracle on rendered output"),
}
ALL = ["C%02d" % i for i in range(1, 20)]
NA_REASON = {}

def main():
    checks = []
    for pid in ALL:
        if pid not in CHECKS:
            continue
        c = CHECKS[pid]
        checks.append({
            "property_id": pid,
            "quick_cmd": "./check %s quick" % pid,
            "thorough_cmd": "./check %s thorough" % pid,
            "evidence_file": "/verif/evidence/%s.json" % pid,
            "replay_cmd_template": "./check %s --replay {path}" % pid,
            "engine": "vmon",
            "level_claimed": {"category": c["cat"], "text": c["text"], "design_ref": c["design"]},
            "level_note": c["note"],
            "technique": c["tech"],
        })
    na = [{"property_id": p, "reason": NA_REASON.get(p, "monitor not yet registered in this revision of /verif (under construction, see DESIGN.md §11)")} for p in ALL if p not in CHECKS]
    man = {
        "version": 1,
        "setup_cmd": "./check --setup",
        "hooks": {
            "guard": "--cfg affinitree_verif",
            "enable": "harness/.cargo/config.toml sets rustflags = [\"--cfg\", \"affinitree_verif\"]; the harness crate path-depends on /repo, so every ./check rebuilds affinitree from /repo's working tree with the hook compiled in",
            "baseline_off_cmd": "cd /repo && cargo nextest run --workspace --no-fail-fast --tool-config-file pb:/w/lib/nextest.toml --profile pb --test-threads 8 --offline || cargo test --workspace --no-fail-fast --offline",
            "source_commits": repo_commits(),
            "add_only": True,
        },
        "engines": [{"name": "vmon", "path": "/verif/harness", "serves_properties": sorted(CHECKS.keys()),
                     "kind_free_text": "Rust harness linking the real affinitree crate: seeded hostile workloads, exact-rational oracles (BigInt simplex with verified certificates, independent tree evaluator, reference models), LP hook log / fault injection"}],
        "checks": checks,
        "not_applicable": na,
        "notes": "All checks are runtime monitors over executions of the real library. Exit 0 = held on everything explored (KNOWN-FINDING lines allowed), 1 = VIOLATION line(s), 2 = INCONCLUSIVE (build failure, watchdog, nothing observed). VERIF_SEED selects the workload.",
    }
    with open(os.path.join(ROOT, "MANIFEST.json"), "w") as f:
        json.dump(man, f, indent=1)
        f.write("\n")

if __name__ == "__main__":
    main()
