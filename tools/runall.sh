#!/bin/bash
# usage: tools/runall.sh <quick|thorough> [seeds...]   -- runs every registered check, prints one line per run
TIER="${1:-quick}"; shift
SEEDS="${@:-1}"
cd "$(dirname "$0")/.."
IDS=$(python3 -c "import json;print(' '.join(c['property_id'] for c in json.load(open('MANIFEST.json'))['checks']))")
rc=0
for s in $SEEDS; do
  for id in $IDS; do
    out=$(VERIF_SEED=$s ./check $id $TIER 2>&1); code=$?
    line=$(echo "$out" | grep -E "^$id " | head -1)
    nv=$(echo "$out" | grep -c "^VIOLATION")
    nk=$(echo "$out" | grep -c "^KNOWN-FINDING")
    ni=$(echo "$out" | grep -c "^INCONCLUSIVE")
    echo "seed=$s exit=$code viol=$nv known=$nk inconcl=$ni :: $line"
    if [ $code -ne 0 ]; then rc=1; echo "$out" | grep -E "^(VIOLATION|INCONCLUSIVE)" | head -5; fi
  done
done
exit $rc
