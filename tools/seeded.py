#!/usr/bin/env python3
"""Seeded changes written by independent sub-agents.

  tools/seeded.py add <worktree> <N> <id> <property> [--cfg] [--needs "..."]
        confirm patchN/demoN of a sub-agent in its scratch worktree (compiles, whole suite green with the
        patch, demo fails with it and passes without) and store it as seeded/<id>/{patch.diff,demo.rs,meta.json}
  tools/seeded.py run <id>|all [--checks C03,C04] [--tier quick] [--seed 1]
        apply the stored patch to /repo (git apply), run the checks, undo (git checkout -- .), record the
        outcome in seeded/<id>/meta.json
"""
import json, os, shutil, subprocess, sys, time

ROOT = os.path.dirname(os.path.dirname(os.path.abspath(__file__)))


def sh(cmd, cwd=None, env=None, timeout=7200):
    e = dict(os.environ)
    e["CARGO_NET_OFFLINE"] = "true"
    if env:
        e.update(env)
    return subprocess.run(cmd, shell=True, cwd=cwd, env=e, capture_output=True, text=True, timeout=timeout)


def results(out):
    lines = [l for l in out.splitlines() if l.startswith("test result:")]
    ok = len(lines) > 0 and all("test result: ok" in l for l in lines)
    return ok, lines


def add(wt, n, sid, prop, cfg, needs, release=False):
    out = os.path.join(wt, "out")
    patch = os.path.join(out, f"patch{n}.diff")
    demo = os.path.join(out, f"demo{n}.rs")
    meta_txt = os.path.join(out, f"meta{n}.txt")
    flags = {"RUSTFLAGS": "--cfg affinitree_verif"} if cfg else {}
    log = {}
    sh("git checkout -- src && rm -f tests/seeded_demo*.rs", cwd=wt)
    r = sh(f"git apply --check {patch} && git apply {patch}", cwd=wt)
    if r.returncode != 0:
        print("patch does not apply:", r.stderr)
        return 1
    r = sh("cargo test --offline 2>&1", cwd=wt)
    ok, lines = results(r.stdout)
    log["suite_with_patch"] = lines
    if not ok:
        print("existing suite is NOT green with the patch:\n", "\n".join(lines), r.stdout[-1500:])
        sh("git checkout -- src", cwd=wt)
        return 1
    shutil.copy(demo, os.path.join(wt, "tests", f"seeded_demo{n}.rs"))
    rel = " --release" if release else ""
    r = sh(f"cargo test --offline{rel} --test seeded_demo{n} 2>&1", cwd=wt, env=flags)
    okp, lines = results(r.stdout)
    log["demo_with_patch"] = lines
    sh("git checkout -- src", cwd=wt)
    r2 = sh(f"cargo test --offline{rel} --test seeded_demo{n} 2>&1", cwd=wt, env=flags)
    okc, lines2 = results(r2.stdout)
    log["demo_without_patch"] = lines2
    os.remove(os.path.join(wt, "tests", f"seeded_demo{n}.rs"))
    ran = any("running" in l and "0 tests" not in l for l in r.stdout.splitlines())
    if okp or not okc or not ran:
        print(f"demo does not discriminate: with patch ok={okp} (ran tests: {ran}), without patch ok={okc}")
        print(r.stdout[-800:], r2.stdout[-800:])
        return 1
    d = os.path.join(ROOT, "seeded", sid)
    os.makedirs(d, exist_ok=True)
    shutil.copy(patch, os.path.join(d, "patch.diff"))
    shutil.copy(demo, os.path.join(d, "demo.rs"))
    meta = {
        "id": sid,
        "property": prop,
        "origin": "independent sub-agent given only the property text and a scratch worktree",
        "author_notes": open(meta_txt).read() if os.path.exists(meta_txt) else "",
        "needs_to_manifest": needs,
        "demo_needs_cfg_affinitree_verif": cfg,
        "confirmed": {
            "patch_applies_to_clean_checkout": True,
            "existing_suite_green_with_patch": log["suite_with_patch"],
            "demo_fails_with_patch": log["demo_with_patch"],
            "demo_passes_without_patch": log["demo_without_patch"],
            "how": f"tools/seeded.py add {wt} {n} {sid} {prop}: git apply; cargo test --offline; cargo test --offline --test seeded_demo{n} (with and without the patch)" + (" with RUSTFLAGS=--cfg affinitree_verif for the demo" if cfg else ""),
        },
        "checks": {},
    }
    json.dump(meta, open(os.path.join(d, "meta.json"), "w"), indent=1)
    print(f"stored seeded/{sid}")
    return 0


def run(sid, checks, tier, seed):
    d = os.path.join(ROOT, "seeded", sid)
    meta = json.load(open(os.path.join(d, "meta.json")))
    if sh("git status --porcelain --untracked-files=no", cwd="/repo").stdout.strip():
        print("/repo has uncommitted changes to tracked files; refusing")
        return 1
    r = sh(f"git -C /repo apply {os.path.join(d, 'patch.diff')}")
    if r.returncode != 0:
        print("patch does not apply to /repo:", r.stderr)
        return 1
    # the evidence files describe runs on the unchanged tree: keep them out of the way of runs on a changed one
    evd, evbak = os.path.join(ROOT, "evidence"), os.path.join(ROOT, "evidence.seeded-bak")
    if os.path.isdir(evd) and not os.path.exists(evbak):
        shutil.copytree(evd, evbak)
    try:
        ids = checks or [meta["property"]]
        for pid in ids:
            t0 = time.time()
            r = sh(f"./check {pid} {tier}", cwd=ROOT, env={"VERIF_SEED": str(seed)})
            sigs = []
            for l in r.stdout.splitlines():
                if l.startswith("VIOLATION"):
                    try:
                        sigs.append(json.load(open(l.split("replay=")[1].strip())).get("signature"))
                    except Exception:
                        sigs.append("?")
            verdict = {0: "missed", 1: "caught", 2: "inconclusive"}.get(r.returncode, str(r.returncode))
            meta["checks"][f"{pid}:{tier}:seed{seed}"] = {"verdict": verdict, "signatures": sigs[:5], "seconds": round(time.time() - t0, 1),
                                                         "inconclusive": [l for l in r.stdout.splitlines() if l.startswith("INCONCLUSIVE")][:2]}
            print(f"{sid} {pid} {tier} seed={seed}: {verdict} {sigs[:3]}", flush=True)
    finally:
        sh("git -C /repo checkout -- .")
        if os.path.isdir(evbak):
            shutil.rmtree(evd, ignore_errors=True)
            shutil.move(evbak, evd)
    json.dump(meta, open(os.path.join(d, "meta.json"), "w"), indent=1)
    return 0


def main():
    a = sys.argv[1:]
    if a[0] == "add":
        cfg = "--cfg" in a
        needs = a[a.index("--needs") + 1] if "--needs" in a else ""
        sys.exit(add(a[1], a[2], a[3], a[4], cfg, needs, "--release" in a))
    if a[0] == "run":
        checks = a[a.index("--checks") + 1].split(",") if "--checks" in a else None
        tier = a[a.index("--tier") + 1] if "--tier" in a else "quick"
        seed = int(a[a.index("--seed") + 1]) if "--seed" in a else 1
        ids = sorted(os.listdir(os.path.join(ROOT, "seeded"))) if a[1] == "all" else [a[1]]
        rc = 0
        for sid in ids:
            if os.path.exists(os.path.join(ROOT, "seeded", sid, "meta.json")):
                rc |= run(sid, checks, tier, seed)
        sys.exit(rc)


if __name__ == "__main__":
    main()
