#!/usr/bin/env python3
"""Sensitivity self-test of the monitors: plants small breaks (one at a time) into a scratch worktree
of /repo, rebuilds a scratch copy of the harness against it and runs the targeted quick checks.

    tools/mutants.py [--only NAME[,NAME..]] [--baseline] [--keep] [--all-checks]

Nothing in /repo or /verif is modified except the result file selftest/mutants_results.json.
"""
import json, os, shutil, subprocess, sys, time

ROOT = os.path.dirname(os.path.dirname(os.path.abspath(__file__)))
SCRATCH = os.environ.get("VMUT_SCRATCH", "/tmp/vmut")
REPO = os.path.join(SCRATCH, "repo")
HARN = os.path.join(SCRATCH, "harness")
VROOT = os.path.join(SCRATCH, "verifroot")

# (name, file, old, new, target properties)
M = [
 # C01 / C09 / C17
 ("evaluate_decision_strict", "src/pwl/afftree.rs", ".map(|x| *x <= 0.);", ".map(|x| *x < 0.);", ["C01", "C09", "C17"]),
 ("builder_hardtanh_bounds", "src/distill/builder.rs", "partial_hard_tanh(dim, *row, -1., 1.)", "partial_hard_tanh(dim, *row, -1., 2.)", ["C01"]),
 ("builder_relu_no_elim", "src/distill/builder.rs", "dd.compose::<false, false>(&partial_ReLU(dim, *row));\n                dd.infeasible_elimination();", "dd.compose::<false, false>(&partial_ReLU(dim, *row));", ["C06"]),
 # C02
 ("update_decision_sign", "src/pwl/impl_composition.rs", "impl CompositionSchema for FunctionComposition {\n    fn update_decision(original: &AffFunc, context: &AffFunc) -> AffFunc {\n        AffFunc::from_mats(\n            original.mat.dot(&context.mat),\n            -original.mat.dot(&context.bias) + &original.bias,", "impl CompositionSchema for FunctionComposition {\n    fn update_decision(original: &AffFunc, context: &AffFunc) -> AffFunc {\n        AffFunc::from_mats(\n            original.mat.dot(&context.mat),\n            original.mat.dot(&context.bias) + &original.bias,", ["C02", "C01"]),
 ("graft_label_dropped", "src/pwl/impl_composition.rs", ".add_child_node(parent1_idx, label, AffContent::new(child1_aff))", ".add_child_node(parent1_idx, if K > 2 && label == 3 { 2 } else { label }, AffContent::new(child1_aff))", ["C02"]),
 ("compose_mutates_terminal_state", "src/pwl/afftree.rs", "        let val = self.tree.node_value_mut(node)?;\n        Ok(mem::replace(&mut val.aff, aff))", "        let val = self.tree.node_value_mut(node)?;\n        val.state = NodeState::Feasible;\n        Ok(mem::replace(&mut val.aff, aff))", []),
 # C03
 ("polyhedragen_swap_factors", "src/pwl/iter.rs", "                1 => 1.0,\n                0 => -1.0,", "                1 => -1.0,\n                0 => 1.0,", ["C03", "C09", "C06"]),
 ("forward_without_infeasible_check", "src/pwl/impl_infeasible_elim.rs", "        if infeasible_children.len() != K - 1 {\n            return None;\n        }", "", ["C03", "C04"]),
 ("phase_two_bad_witness_infeasible", "src/pwl/impl_infeasible_elim.rs", "                            counter.lps_error += 1;\n                            NodeState::Indeterminate\n                        } else {", "                            counter.lps_error += 1;\n                            NodeState::Infeasible\n                        } else {", ["C11"]),
 ("phase_two_unfixable_infeasible", "src/pwl/impl_infeasible_elim.rs", "                        counter.lps_error += 1;\n                        NodeState::Indeterminate\n                    }\n                } else {\n                    counter.lps_feasible += 1;", "                        counter.lps_error += 1;\n                        NodeState::Infeasible\n                    }\n                } else {\n                    counter.lps_feasible += 1;", ["C11"]),
 ("d9_reintroduced_elim", "src/pwl/impl_infeasible_elim.rs", "if self.tree.contains(node) && self.tree.num_children(node) > 1 {", "if self.tree.contains(node) {", ["C03", "C04"]),
 ("minilp_panic_fix_reverted", "src/linalg/polyhedron.rs", "        let result = match std::panic::catch_unwind(std::panic::AssertUnwindSafe(|| pb.solve())) {\n            Ok(result) => result,\n            Err(_) => return PolytopeStatus::Error(\"minilp panicked while solving\".to_owned()),\n        };", "        let result = pb.solve();", ["C10"]),
 ("mirror_points_contains_fix_reverted", "src/pwl/impl_infeasible_elim.rs", ".filter(|(point, dist)| dist.iter().all(|val| *val >= 0.) && poly.contains(point))", ".filter(|(_, dist)| dist.iter().all(|val| *val >= 0.))", ["C04", "C05"]),
 ("row_scaling_fix_reverted", "src/linalg/polyhedron.rs", "2.0_f64.powi(-(max_coeff.log2().floor() as i32))", "1.0", ["C10", "C03"]),
 # C04
 ("remove_child_keeps_isleaf", "src/tree/graph.rs", "        if self.num_children(parent) == 0 {\n            self.arena[parent].isleaf = true;\n        }", "", ["C12", "C04"]),
 ("compose_forward_ignores_skipped", "src/pwl/impl_composition.rs", "if created_children == 1 && created_children + skipped_children == K {", "if created_children == 1 {", ["C03", "C04", "C07"]),
 ("apply_func_on_decisions", "src/pwl/afftree.rs", "for leaf_idx in self.tree.terminal_indices().collect_vec() {\n            self.apply_func_at_node(leaf_idx, aff_func);", "for leaf_idx in self.tree.node_indices().collect_vec() {\n            self.apply_func_at_node(leaf_idx, aff_func);", ["C02", "C04"]),
 # C05
 ("phase_inh_no_filter", "src/pwl/impl_infeasible_elim.rs", "                .filter(|point| hyperplane.contains(point))\n", "", ["C05", "C06", "C11"]),
 ("remove_axes_keeps_states", "src/pwl/afftree.rs", "            node.state = NodeState::Indeterminate;\n", "", ["C05"]),
 ("mirror_points_no_check", "src/pwl/impl_infeasible_elim.rs", "                .filter(|(point, dist)| dist.iter().all(|val| *val >= 0.) && poly.contains(point))", "                .filter(|(point, dist)| count > 0 || (dist.iter().all(|val| *val >= 0.) && poly.contains(point)))", ["C05"]),
 # C06
 ("skip_forwarding", "src/pwl/impl_infeasible_elim.rs", "            if n_remaining == 0 {\n                self.forward_if_redundant(parent_idx);\n            }", "", ["C06"]),
 ("elim_skips_deep_nodes", "src/pwl/impl_infeasible_elim.rs", "            if node_idx == self.tree.get_root_idx() {\n                continue;\n            }", "            if node_idx == self.tree.get_root_idx() || depth > 3 {\n                continue;\n            }", ["C06"]),
 # C07
 ("tree_sub_operand_order", "src/pwl/impl_ops.rs", "            context.clone().$op(original)", "            if stringify!($op) == \"sub\" { original.clone().$op(context) } else { context.clone().$op(original) }", ["C07"]),
 ("affine_left_order", "src/pwl/impl_ops.rs", "rhs.unary_op_into(|node| self.clone().$mth(node))", "rhs.unary_op_into(|node| node.$mth(self))", ["C07"]),
 ("neg_on_all_nodes", "src/pwl/impl_ops.rs", "        self.unary_op_into(|node| node.neg())", "        let mut s = self;\n        for idx in s.tree.node_indices().collect_vec() {\n            let n = s.tree.node_value_mut(idx).unwrap();\n            n.aff = -n.aff.clone();\n        }\n        s", ["C07", "C04"]),
 # C08
 ("reduce_compares_mat_only", "src/pwl/impl_reduction.rs", "if left.value.aff == right.value.aff {", "if left.value.aff.mat == right.value.aff.mat {", ["C08"]),
 ("reduce_merges_decisions", "src/pwl/impl_reduction.rs", "                    if left.children_iter().count() != 0 || right.children_iter().count() != 0 {\n                        continue;\n                    }\n", "", ["C08"]),
 ("reduce_not_reversed", "src/pwl/impl_reduction.rs", "        elements.reverse();\n", "", ["C08"]),
 # C09
 ("polyhedragen_pop_off_by_one", "src/pwl/iter.rs", "let diff = 1 + self.last_depth - depth;", "let diff = self.last_depth - depth;", ["C09", "C03", "C06"]),
 ("index_from_label_bit_order", "src/pwl/afftree.rs", "true => idx += 1 << i,", "true => idx += 1 << (result.len() - 1 - i),", ["C02"]),
 ("find_terminal_label_seq", "src/pwl/afftree.rs", "            label_seq.push(label);\n            let successor_idx = current_node.children[label]?;", "            let successor_idx = current_node.children[label]?;\n            label_seq.push(label);", []),
 # C10
 ("lp_infeasible_as_unbounded", "src/linalg/polyhedron.rs", "Err(minilp::Error::Infeasible) => PolytopeStatus::Infeasible,", "Err(minilp::Error::Infeasible) => PolytopeStatus::Unbounded,", ["C10", "C06"]),
 ("lp_le_to_ge", "src/linalg/polyhedron.rs", "pb.add_constraint(constraint.as_slice(), ComparisonOp::Le, *bias * scale);", "pb.add_constraint(constraint.as_slice(), ComparisonOp::Ge, *bias * scale);", ["C10"]),
 ("lp_drop_nonfinite_check", "src/linalg/polyhedron.rs", "if wit.iter().any(|x| x.is_infinite() || x.is_nan()) {", "if false {", ["C10"]),
 ("chebyshev_norm_missing_sqrt", "src/linalg/affine.rs", "norm[[idx, 0]] = row.map(|x: &A| x.powi(2)).sum().sqrt();", "norm[[idx, 0]] = row.map(|x: &A| x.powi(2)).sum();", ["C10"]),
 # C11
 ("phase_two_error_infeasible", "src/pwl/impl_infeasible_elim.rs", "                error!(\"LP solver terminated with error: {}\", err_msg);\n                counter.lps_error += 1;\n                NodeState::Indeterminate", "                error!(\"LP solver terminated with error: {}\", err_msg);\n                counter.lps_error += 1;\n                NodeState::Infeasible", ["C11"]),
 ("phase_two_accept_repaired_unchecked", "src/pwl/impl_infeasible_elim.rs", "                        if !poly.contains(&new_solution) {", "                        if false {", []),
 ("phase_two_no_contains_check", "src/pwl/impl_infeasible_elim.rs", "                if !poly.contains(&solution) {", "                if false {", ["C11"]),
 ("edge_feasible_error_false", "src/pwl/impl_infeasible_elim.rs", "                    err, &poly\n                );\n                true", "                    err, &poly\n                );\n                false", ["C11"]),
 ("edge_feasible_unbounded_false", "src/pwl/impl_infeasible_elim.rs", "                    &poly\n                );\n                true", "                    &poly\n                );\n                false", ["C11"]),
 # C12
 ("merge_child_parent_not_updated", "src/tree/graph.rs", "        self.arena[child_idx].parent = Some(grandparent_idx);\n", "", ["C12"]),
 ("remove_descendants_keeps_children", "src/tree/graph.rs", "        for child in &mut node.children {\n            *child = None;\n        }\n", "", ["C12"]),
 ("update_node_swaps_nothing", "src/tree/graph.rs", "        Ok(mem::replace(&mut node.value, value))", "        Ok(mem::replace(&mut node.value.clone(), value))", ["C12"]),
 ("add_child_leak_reintroduced", "src/tree/graph.rs", "        if self.arena[parent].children[label].is_some() {\n            return Err(NodeError::ChildExists { parent, label });\n        }\n\n        let childnode", "        let childnode", ["C12"]),
 # C13
 ("dfs_no_rev", "src/tree/iter.rs", "for (n_remaining, child) in node.children.iter().rev().flatten().enumerate() {", "for (n_remaining, child) in node.children.iter().flatten().enumerate() {", ["C13", "C09"]),
 ("dfs_depth_not_incremented", "src/tree/iter.rs", "            self.stack.push(DfsNodeData {\n                depth: data.depth + 1,", "            self.stack.push(DfsNodeData {\n                depth: data.depth,", ["C13", "C09"]),
 ("bfs_skip_pops_front", "src/tree/iter.rs", "            self.queue.pop_back();", "            self.queue.pop_front();", ["C13"]),
 ("depth_stats_counts_decisions", "src/tree/graph.rs", "            if !self.is_leaf(data.index).unwrap_or(false) {\n                continue;\n            }", "", ["C13"]),
 # C14
 ("translate_minus", "src/linalg/affine.rs", "PolytopeG::<A>::from_mats(self.mat.to_owned(), &self.bias + self.mat.dot(direction))", "PolytopeG::<A>::from_mats(self.mat.to_owned(), &self.bias - self.mat.dot(direction))", ["C14"]),
 ("apply_post_transposed", "src/linalg/affine.rs", "            self.mat.dot(inverse_mat),\n            self.mat.dot(&inverse_mat.dot(bias)) + &self.bias,", "            self.mat.dot(&inverse_mat.t()),\n            self.mat.dot(&inverse_mat.t().dot(bias)) + &self.bias,", ["C14"]),
 ("cross_polytope_bit", "src/linalg/affine.rs", "if i.bitand(1 << j) != 0 {", "if i.bitand(1 << j) != 0 && j + 1 < dim.max(2) {", ["C14"]),
 ("axis_bounds_inf_upper", "src/linalg/affine.rs", "        if upper.is_infinite() {\n            bias[idx + 1] = B::one();", "        if upper.is_infinite() {\n            bias[idx + 1] = -B::one();", ["C14"]),
 ("from_normal_sign", "src/linalg/affine.rs", "PolytopeG::<A>::from_mats(-normal_vectors, -bias)", "PolytopeG::<A>::from_mats(-normal_vectors, bias)", ["C14"]),
 # C15
 ("dup_rows_ignore_bias", "src/linalg/affine.rs", "if mat_eq && bias_eq {", "if mat_eq {", ["C15"]),
 ("tautology_strict", "src/linalg/affine.rs", "                    if *v >= A::zero() {\n                        // superfluous bound", "                    if *v > A::zero() {\n                        // superfluous bound", ["C15"]),
 ("redundant_flipped", "src/linalg/polyhedron.rs", "if val <= bound + f64::EPSILON {", "if val >= bound + f64::EPSILON {", ["C15"]),
 ("remove_zero_rows_ignores_bias", "src/linalg/affine.rs", ".filter(|(r, &v)| r.iter().any(|&x| x != A::zero()) || v != A::zero())", ".filter(|(r, _)| r.iter().any(|&x| x != A::zero()))", ["C15", "C16"]),
 # C16
 ("compose_bias_swapped", "src/linalg/affine.rs", "            self.mat.dot(&other.mat),\n            self.apply(&other.bias),", "            self.mat.dot(&other.mat),\n            other.apply(&self.bias),", ["C16"]),
 ("stack_order", "src/linalg/affine.rs", "            concatenate![Axis(0), self.mat, other.mat],\n            concatenate![Axis(0), self.bias, other.bias],", "            concatenate![Axis(0), other.mat, self.mat],\n            concatenate![Axis(0), other.bias, self.bias],", ["C16"]),
 ("convert_geq_bias", "src/linalg/affine.rs", "            PolyRepr::MatrixGeqBias => AffFuncBase::<FunctionT, OwnedRepr<A>> {\n                mat: -self.mat,\n                bias: -self.bias,", "            PolyRepr::MatrixGeqBias => AffFuncBase::<FunctionT, OwnedRepr<A>> {\n                mat: -self.mat,\n                bias: self.bias,", ["C16"]),
 ("rem_is_div", "src/linalg/impl_ops.rs", "impl_ops!(Rem, rem, \"remainder\");", "impl_ops!(Rem, rem, \"remainder\");\n// mutant placeholder", []),
 # C17
 ("leaky_alpha_wrong_branch", "src/distill/schema.rs", "    dd.add_child_node(0, 0, affine_false).unwrap();\n    dd.add_child_node(0, 1, affine_true).unwrap();\n\n    dd\n}\n\n/// Creates an AffTree instance that corresponds to the hard hyperbolic", "    dd.add_child_node(0, 1, affine_false).unwrap();\n    dd.add_child_node(0, 0, affine_true).unwrap();\n\n    dd\n}\n\n/// Creates an AffTree instance that corresponds to the hard hyperbolic", ["C17"]),
 ("argmax_tie_later", "src/distill/schema.rs", "let affine = AffFunc::subtraction(dim, 1, 0);\n    let mut dd = AffTree::from_aff(affine);", "let mut affine = AffFunc::subtraction(dim, 1, 0);\n    affine.bias[0] = -f64::MIN_POSITIVE;\n    let mut dd = AffTree::from_aff(affine);", ["C17"]),
 ("inf_norm_minmax_swapped", "src/distill/schema.rs", "minimum.map(|min| AffFunc::from_mats(-Array2::eye(dim), -Array1::from_elem(dim, min)));", "minimum.map(|min| AffFunc::from_mats(-Array2::eye(dim), Array1::from_elem(dim, min)));", ["C17"]),
 ("threshold_closed", "src/distill/schema.rs", "    let mut aff = AffFunc::unit(dim, row);\n    aff.bias[0] = threshold;\n    let mut dd = AffTree::from_aff(aff);", "    let mut aff = AffFunc::unit(dim, row);\n    aff.bias[0] = threshold - f64::EPSILON;\n    let mut dd = AffTree::from_aff(aff);", ["C17"]),
 ("from_poly_else_only_last", "src/pwl/afftree.rs", "        for decision in iter {\n            if let Some(aff_false) = func_false {\n                tree.add_child_node(parent, 0, aff_false.clone()).unwrap();\n            }", "        for decision in iter {\n            if let (Some(aff_false), true) = (func_false, poly.n_constraints() < 4) {\n                tree.add_child_node(parent, 0, aff_false.clone()).unwrap();\n            }", ["C17"]),
 # C18
 ("arch_linear_checks_outdim", "src/distill/arch.rs", "self.current_shape.compatible_dim(aff.indim())?;", "self.current_shape.compatible_dim(aff.outdim())?;", ["C18"]),
 ("extract_range_skip_start", "src/distill/arch.rs", "let mut iter_skip = iter.skip(start - 1);", "let mut iter_skip = iter.skip(start.saturating_sub(2));", ["C18"]),
 ("arch_relu_misses_last", "src/distill/arch.rs", "    pub fn relu(&mut self) -> Result<(), ShapeError> {\n        for idx in 0..self.current_shape.max_dim() {", "    pub fn relu(&mut self) -> Result<(), ShapeError> {\n        for idx in 0..self.current_shape.max_dim().max(3) - (self.current_shape.max_dim().max(3) - self.current_shape.max_dim().min(2)) {", ["C18"]),
 ("read_layers_relu_dim", "src/distill/builder.rs", "            \"hard_tanh\" => {\n                for idx in 0..dim {", "            \"hard_tanh\" => {\n                for idx in 0..dim.min(4) {", ["C18"]),
 # C19
 ("lincomb_prints_position", "src/linalg/impl_affineformat.rs", "write!(f, \" ${}\", idx)?;", "write!(f, \" ${}\", no)?;", ["C19"]),
 ("lincomb_no_ellipsis", "src/linalg/impl_affineformat.rs", "            if first_skip {\n                write!(f, \" {}\", ELLIPSIS)?;\n                first_skip = false;\n            }\n            continue;", "            if first_skip && no > 0 {\n                write!(f, \" {}\", ELLIPSIS)?;\n                first_skip = false;\n            }\n            continue;", ["C19"]),
 ("float_sign_of_zero", "src/linalg/impl_affineformat.rs", "if value.is_sign_negative() {", "if value > 0.0 {", ["C19"]),
 ("dot_edges_from_node_iter", "src/pwl/dot.rs", "                edg.label,\n                if edg.label == 0 {", "                1 - edg.label,\n                if edg.label == 0 {", ["C19"]),
 ("display_children_missing_last", "src/pwl/node.rs", "            Only | Last => write!(f, \"{}->{}\", label, idx)?,", "            Only => write!(f, \"{}->{}\", label, idx)?,\n            Last => {}", ["C19"]),
]


def sh(cmd, cwd=None, env=None, timeout=3600):
    e = dict(os.environ)
    if env:
        e.update(env)
    return subprocess.run(cmd, shell=True, cwd=cwd, env=e, capture_output=True, text=True, timeout=timeout)


def setup():
    os.makedirs(SCRATCH, exist_ok=True)
    if not os.path.isdir(REPO):
        r = sh(f"git -C /repo worktree add --detach {REPO} HEAD")
        if r.returncode != 0:
            print(r.stderr)
            sys.exit(2)
        shutil.copy("/repo/Cargo.lock", os.path.join(REPO, "Cargo.lock"))
    else:
        sh("git checkout -- . && git checkout --detach $(git -C /repo rev-parse HEAD)", cwd=REPO)
    if os.path.isdir(HARN):
        for d in ("src", ".cargo"):
            shutil.rmtree(os.path.join(HARN, d), ignore_errors=True)
    os.makedirs(HARN, exist_ok=True)
    shutil.copytree(os.path.join(ROOT, "harness", "src"), os.path.join(HARN, "src"))
    shutil.copytree(os.path.join(ROOT, "harness", ".cargo"), os.path.join(HARN, ".cargo"))
    if os.path.isdir(os.path.join(ROOT, "harness", "regress")):
        shutil.copytree(os.path.join(ROOT, "harness", "regress"), os.path.join(HARN, "regress"))
    shutil.copy(os.path.join(ROOT, "harness", "Cargo.lock"), HARN)
    t = open(os.path.join(ROOT, "harness", "Cargo.toml")).read().replace('path = "/repo"', f'path = "{REPO}"')
    open(os.path.join(HARN, "Cargo.toml"), "w").write(t)
    os.makedirs(os.path.join(VROOT, "replays"), exist_ok=True)
    os.makedirs(os.path.join(VROOT, "evidence"), exist_ok=True)
    shutil.copy(os.path.join(ROOT, "known_findings.json"), VROOT)
    shutil.copy(os.path.join(ROOT, "properties.jsonl"), VROOT)


def build():
    r = sh("cargo build --profile mon --offline 2>&1 | tail -15", cwd=HARN, timeout=1800)
    ok = os.path.exists(os.path.join(HARN, "target/mon/vmon")) and "error" not in r.stdout.lower().split("warning")[0] and "could not compile" not in r.stdout
    return ok, r.stdout


def run_check(pid, seed=1):
    r = sh(f"./target/mon/vmon run {pid} quick", cwd=HARN, env={"VERIF_ROOT": VROOT, "VERIF_SEED": str(seed)}, timeout=1800)
    sigs = []
    for l in r.stdout.splitlines():
        if l.startswith("VIOLATION"):
            path = l.split("replay=")[1].strip()
            try:
                sigs.append(json.load(open(path)).get("signature", "?"))
            except Exception:
                sigs.append("?")
    return r.returncode, sigs, r.stdout


def main():
    args = sys.argv[1:]
    only = None
    baseline = "--baseline" in args
    allchecks = "--all-checks" in args
    if "--only" in args:
        only = set(args[args.index("--only") + 1].split(","))
    setup()
    ok, out = build()
    if not ok:
        print("baseline harness build failed\n", out)
        sys.exit(2)
    allids = ["C%02d" % i for i in range(1, 20)]
    if "--seeded" in args:
        return seeded_matrix(allids)
    results = {}
    resfile = os.path.join(ROOT, "selftest", "mutants_results.json")
    os.makedirs(os.path.dirname(resfile), exist_ok=True)
    if os.path.exists(resfile) and only:
        results = json.load(open(resfile))
    for (name, file, old, new, targets) in M:
        if only and name not in only:
            continue
        if old == new or "mutant placeholder" in new:
            continue
        path = os.path.join(REPO, file)
        src = open(path).read()
        if src.count(old) != 1:
            print(f"[{name}] pattern occurs {src.count(old)} times in {file} -- skipped")
            results[name] = {"status": "pattern-mismatch"}
            continue
        open(path, "w").write(src.replace(old, new))
        t0 = time.time()
        try:
            ok, out = build()
            if not ok:
                print(f"[{name}] does not compile")
                results[name] = {"status": "does-not-compile", "log": out[-600:]}
                continue
            res = {"status": "ran", "file": file, "targets": targets, "caught_by": {}, "missed_by": []}
            if baseline:
                r = sh("cargo test --offline 2>&1 | grep -E '^test result|FAILED|panicked' | head -20", cwd=REPO, timeout=3600)
                res["baseline_tests_pass"] = ("FAILED" not in r.stdout and "failed" not in r.stdout.replace("0 failed", ""))
            for pid in (allids if allchecks else (targets or allids)):
                code, sigs, so = run_check(pid)
                if code == 1:
                    res["caught_by"][pid] = sigs[:4]
                elif code == 0:
                    res["missed_by"].append(pid)
                else:
                    res.setdefault("inconclusive", {})[pid] = [l for l in so.splitlines() if l.startswith("INCONCLUSIVE")][:2]
            res["seconds"] = round(time.time() - t0, 1)
            results[name] = res
            print(f"[{name}] caught_by={list(res['caught_by'].keys())} missed_by={res['missed_by']} {res.get('inconclusive','')} baseline_pass={res.get('baseline_tests_pass')}  ({res['seconds']}s)", flush=True)
        finally:
            open(path, "w").write(src)
            json.dump(results, open(resfile, "w"), indent=1)
    if "--keep" not in args:
        sh(f"git -C /repo worktree remove --force {REPO}")
        shutil.rmtree(SCRATCH, ignore_errors=True)


def seeded_matrix(allids):
    """apply every seeded/<id>/patch.diff in the scratch worktree and run ALL checks: which check catches which change"""
    resfile = os.path.join(ROOT, "selftest", "seeded_matrix.json")
    os.makedirs(os.path.dirname(resfile), exist_ok=True)
    out = {}
    sdir = os.path.join(ROOT, "seeded")
    ids_filter = set(sys.argv[sys.argv.index("--ids") + 1].split(",")) if "--ids" in sys.argv else None
    own = "--own" in sys.argv
    if ids_filter:
        resfile = os.path.join(ROOT, "selftest", "seeded_partial.json")
    for sid in sorted(os.listdir(sdir)):
        patch = os.path.join(sdir, sid, "patch.diff")
        if not os.path.exists(patch) or (ids_filter and sid not in ids_filter):
            continue
        sh("git checkout -- .", cwd=REPO)
        r = sh(f"git apply {patch}", cwd=REPO)
        if r.returncode != 0:
            out[sid] = {"status": "patch-does-not-apply"}
            continue
        try:
            ok, log = build()
            if not ok:
                out[sid] = {"status": "does-not-compile"}
                continue
            res = {"status": "ran", "caught_by": {}, "missed_by": [], "inconclusive": []}
            chk = sys.argv[sys.argv.index("--checks") + 1].split(",") if "--checks" in sys.argv else None
            for pid in (chk or ([sid.split("-")[0]] if own else allids)):
                code, sigs, so = run_check(pid)
                if code == 1:
                    res["caught_by"][pid] = sigs[:3]
                elif code == 0:
                    res["missed_by"].append(pid)
                else:
                    res["inconclusive"].append(pid)
            out[sid] = res
            print(f"[{sid}] caught_by={list(res['caught_by'].keys())} inconclusive={res['inconclusive']}", flush=True)
        finally:
            sh("git checkout -- .", cwd=REPO)
            json.dump(out, open(resfile, "w"), indent=1)
    if "--keep" not in sys.argv:
        sh(f"git -C /repo worktree remove --force {REPO}")
        shutil.rmtree(SCRATCH, ignore_errors=True)


if __name__ == "__main__":
    main()
