#!/usr/bin/env python3
"""Print the markdown table of seeded changes (DESIGN.md §8.4) from seeded/<id>/meta.json.

  tools/seeded_table.py [round2]      round2: only the ids ending in -c/-d/-e that were added in the second round
"""
import json, os, sys

ROOT = os.path.dirname(os.path.dirname(os.path.abspath(__file__)))

# one-line description of each round-2 change (round-1 descriptions live in DESIGN.md itself)
CHANGE = {
    "C01-c": "`partial_leaky_ReLU` predicate rewritten via max{x, αx}: row `(1-α)·x <= 0`",
    "C01-d": "`update_decision` normalises the composed predicate (argmax/class heads lose exact ties)",
    "C02-c": "`update_terminal` shortcut: identity matrix of g's terminal ⇒ return f's terminal (bias of g dropped)",
    "C02-d": "child loop over g stops after label `outdim` ('r rows give r+1 outcomes')",
    "C03-c": "`is_edge_feasible` returns `witnesses.any(contains)` without falling through to the LP",
    "C03-d": "elimination marks a parent Infeasible when all *existing* children are infeasible (wrong for partial decisions)",
    "C04-c": "`reduce` loses its root guard (`skip(1)` after `reverse()` drops the wrong node)",
    "C04-d": "`is_edge_feasible` no longer treats root edges as feasible ⇒ pruned composition forwards the root and unwraps `RootNode`",
    "C05-c": "`phase_two` drops zero-normal rows before the LP and before the `contains` re-check",
    "C05-d": "parent cached as Infeasible when all existing children are infeasible (partial trees)",
    "C06-c": "`PolyhedraGen::skip_subtree` also pops a predicate ⇒ path polytopes one half-space short afterwards",
    "C06-d": "`forward_if_redundant` only forwards when the surviving child is a terminal",
    "C09-d": "`PolyhedraGen::next` does not push trivially true half-spaces (stack misaligned below zero-row decisions)",
    "C09-e": "`AffTree::evaluate` walks the tree itself with the tolerant `Polytope::contains`",
    "C10-c": "`as_linprog` skips rows whose coefficients equal an earlier row's (bias ignored)",
    "C10-d": "`chebyshev_center` drops the `-r <= 0` row",
    "C11-c": "`phase_two` caches the unrepaired LP point after a successful `mirror_points` repair",
    "C11-d": "`num_children(parent) > 1` guard evaluated when queueing instead of when removing",
    "C07-c": "owned `AffFunc op AffTree` forwards as `rhs.op(&self)` (operands swapped for - and /)",
    "C07-d": "`Neg for AffTree` negates every node, decision predicates included",
    "C08-c": "sibling equality replaced by `|Σ(Δmat)| + |Σ(Δbias)| <= ε` (differences cancel)",
    "C08-d": "flattened guards: a decision with only a label-0 terminal child is merged away",
    "C12-c": "`try_remove_child` restores `isleaf` when children 0 and 1 are gone (binary assumption, K=3)",
    "C12-d": "`merge_child_with_parent` without the early root return: relinks the child before failing",
    "C13-c": "`Bfs::skip_subtree` truncates and no longer resets `last_push` (second skip removes foreign entries)",
    "C13-d": "`DfsPre::new` seeds depth with the start node's distance from the tree root",
    "C14-c": "`translate` divides the shift `a·d` by the row norm",
    "C14-d": "`distance` zero-norm guard returns +inf regardless of the bias sign",
    "C15-c": "`remove_zero_rows` judges a zero row by the sum of its coefficients",
    "C15-d": "`remove_redundant_row_constraints` marks all-zero rows redundant without looking at the bias",
    "C16-c": "`stack` concatenates the biases as (other, self)",
    "C16-d": "`convert_to(MatrixGeqBias)` leaves the bias un-negated",
    "C17-c": "`partial_hard_tanh` lower breakpoint uses `-max_val` instead of `min_val`",
    "C17-d": "`inf_norm` skips component 1 of the first bound block (`row_iter.skip(1)` after `next()`)",
    "C18-c": "`extract_range` takes the second half's input shape from `operators[start]` instead of `operators[start-1]`",
    "C18-d": "`read_layers` no longer sorts member names (archive order instead of index order)",
    "C19-c": "all-zero-row test `x == 0.0` became `|x| < f64::EPSILON`",
    "C19-d": "DOT node loop `0..len()` instead of the arena iterator (nodes with index >= len() get no statement)",
}

# round 3: "subtle changes that need a rare but legitimate combination"
CHANGE3 = {
    "C01-e": "`is_edge_feasible` decides constant predicates `0.x <= b` statically with `b > 0` (drops the true branch for b == 0)",
    "C01-f": "builder fast path: a one-node tree is assumed to be the identity (`update_node` instead of `apply_func`)",
    "C02-e": "leaf flags of g collected by position from `node_iter()` and looked up by index (dense-arena assumption)",
    "C02-f": "constant composed predicate ⇒ copy only the selected child of g (which may be missing)",
    "C03-e": "`&a op b` forwards as `rhs.op(self)` (same slip as C07-a, stored for C03's operator clause)",
    "C03-f": "zero-row shortcut in elimination tests `mat.sum() == 0` (rows whose coefficients cancel lose a branch)",
    "C04-e": "`remove_all_descendants` pushes children right-to-left and stops at the first empty slot (orphans)",
    "C04-f": "composition copies the operand's cached state into new nodes (witnesses of another input space)",
    "C05-e": "`PolyhedraGen::skip_subtree` also pops a predicate (same slip as C06-c / C09-b, stored for C05's witness clause)",
    "C05-f": "`mirror_points` returns all candidate columns as soon as any one is inside",
    "C06-e": "depth-1 nodes: witness via `mirror_points` from the origin, else `Feasible` without LP (degenerate root predicate)",
    "C06-f": "'skip subtrees fully checked by a previous run' flag computed in arena order (index reuse)",
    "C09-f": "`PolyhedraGen::next` skips the subtree of nodes cached as Infeasible by itself",
    "C09-g": "`DfsPre::next` n_remaining = K-1-label (same slip as C13-b, stored for C09's counter clause)",
    "C11-e": "`phase_two` retries once after a solver Error and trusts the retry's point unchecked",
    "C11-f": "`phase_inh` inherits witnesses from the closest ancestor that has any (skipped levels unchecked)",
    "C12-e": "`remove_all_descendants` seeds its stack with `children.iter().map_while(..)` (stops at a gap)",
    "C12-f": "`add_child_node` validates the parent only after its own insertion (self-linked node on index reuse)",
    "C13-e": "`Tree::depth` computed in one pass over the arena in index order (parent index < child index assumed)",
    "C13-f": "`skip_subtree` sets the lower size bound before truncating (DfsPre, DfsEdge, Bfs)",
    "C07-e": "left-operand terminals enumerated as `(0..len()).filter(is_leaf)` (terminals behind arena holes skipped)",
    "C07-f": "in-place fast path zips the raw buffers in memory order without comparing strides",
    "C08-e": "`PartialEq` of AffFunc compares contiguous buffers in memory order (layout-blind)",
    "C08-f": "`reduce` compares whole node contents incl. the cached feasibility state",
    "C10-e": "`as_linprog` reads rows from `as_slice_memory_order()` chunks (wrong for column-major matrices)",
    "C10-f": "variables that occur in no constraint are created with bounds (0, 0)",
    "C14-e": "`apply_pre` drops rows whose composed normal is zero without looking at the constant",
    "C14-f": "`apply_post` zero-offset fast path tests `bias.sum().is_zero()`",
    "C15-e": "`remove_tautologies` decides by `is_sign_negative()` (bias -0.0 makes the set empty)",
    "C15-f": "`normalize` filter_map drops zero rows before zipping with the biases (pairing shifts)",
    "C16-e": "`subtraction(dim, i, i)`: plain assignment `-1` instead of read-modify-write",
    "C16-f": "`slice` derives the keep-mask from the NaN-cleaned values (`is_zero`)",
    "C17-e": "`remove_axes` loops `0..len()` over the arena (nodes behind holes keep their columns)",
    "C17-f": "`from_poly` drops rows with a zero normal vector regardless of the bias",
    "C18-e": "`read_layers` re-wraps the weight buffer with `into_raw_vec()` (Fortran-ordered members scrambled)",
    "C18-f": "`Architecture::linear` installs the new shape before the compatibility check (rejected call corrupts the shape)",
    "C19-e": "`write_lincomb` enumerates `as_slice_memory_order()` (reversed-stride rows print wrong indices)",
    "C19-f": "`write_predicate` prints only row 0 of a multi-row predicate (K >= 4)",
}
CHANGE.update(CHANGE3)

# round 4: "a trigger of a different kind: a dimension of the input space that randomised tests leave constant"
CHANGE4 = {
    "C01-g": "`infeasible_elimination` intersects every path polytope with the box [-1e6, 1e6]^n",
    "C01-h": "`AffFunc::compose` fast path: identity matrix ⇒ return the other function (own bias forgotten)",
    "C02-g": "composed predicate entries with |v| < 1e-9 are set to 0 ('round-off residue')",
    "C02-h": "`compose::<false, true>` dispatches to the pruning schema (copy-paste in the VERBOSE arm)",
    "C03-g": "`compose::<true, true>` takes the terminals to expand from `other` instead of `self`",
    "C03-h": "`is_edge_feasible`: `Optimal(solution) => poly.contains(&solution)` (fails at weights >= 1e5)",
    "C04-g": "`Tree::num_nodes` counts recursively (call stack grows with the depth of the subtree)",
    "C04-h": "verbose visitor divides the elapsed time by the number of created nodes (zero for a no-node operand)",
    "C05-g": "`phase_two` solves the LP on the path polytope intersected with hypercube(1e6)",
    "C05-h": "parent's cached state cloned into a node whose cut is 'implied' by an earlier parallel cut (comparison reversed)",
    "C06-g": "the 'LP answer could not be fixed' arms of `phase_two` return Infeasible instead of Indeterminate",
    "C06-h": "pre-check: nearly opposite normals (cosine < -1 + 1e-10) with negative bias sum ⇒ Infeasible without LP",
    "C07-g": "`is_edge_feasible` returns `witnesses.any(contains)` (same slip as C03-c, stored for C07: cached left operand)",
    "C07-h": "zero-function fast path in the shared operator macro (correct for + and -, wrong for * and /)",
    "C09-h": "`PolyhedraIter::nth` advances the inner DfsPre directly (predicate stack not maintained)",
    "C09-i": "`evaluate_decision` reads the input through `as_slice_memory_order()`",
    "C10-g": "`solve_linprog` early return `Optimal(0)` for a polytope without rows (objective ignored)",
    "C10-h": "solution coordinates with |x| >= 1e20 are re-classified as Unbounded",
    "C11-g": "side table `vec![false; len()]` indexed with slab keys (live key >= len after removals) on an Indeterminate node",
    "C11-h": "fallback: a node Indeterminate after phase_two takes the parent's witnesses if 'all other branches' are infeasible (vacuous for a single child)",
    "C08-g": "`reduce()` memoises 'already reduced' by node count (`reduced_len`), stale after an edit that keeps len()",
    "C08-h": "sibling equality via `f64::total_cmp` (-0.0 and +0.0 differ)",
    "C12-g": "`merge_child_with_parent`: the 'exactly one child' assert replaced by a `contains` check",
    "C12-h": "`remove_all_descendants` visited-bitset sized by `len()` instead of the slab's high-water mark",
    "C13-g": "`depth()` cached in a `Cell`, not invalidated by `merge_child_with_parent`",
    "C13-h": "`depth()` computed recursively (stack grows with the depth of the tree)",
    "C14-g": "`place_axis_bounds`: `!bound.is_normal()` instead of `is_infinite()` (a bound of exactly 0.0 vanishes)",
    "C14-h": "`intersection_n` bulk-copies operands via `as_slice_memory_order()`",
    "C15-g": "`normalize` works on `into_raw_vec()` chunks (assumes row-major storage)",
    "C15-h": "`remove_tautologies` zero-row test `|x| <= EPSILON`",
    "C16-g": "`stack` fast path appends raw buffers of 'contiguous' matrices (column-major ones scrambled)",
    "C16-h": "`remove_zero_rows/columns` test `|x| > EPSILON` instead of `!= 0`",
    "C17-g": "`from_poly` calls `remove_duplicate_rows` first (collapses rows in tiny / huge units)",
    "C17-h": "`from_poly`: arguments of `with_capacity(dim, capacity)` swapped (wrong `in_dim`, values unaffected)",
    "C18-g": "node estimator `1usize << first_dim` (shift overflow for a first layer of >= 64 neurons, debug builds)",
    "C18-h": "builder dedups a repeated activation on the same neuron (`HardSigmoid` is not idempotent)",
    "C19-g": "sorted row + open-ended axis skip keeps `start` instead of `start + 1` entries (ellipsis lost)",
    "C19-h": "zero-row test by `row.sum() == 0.0` in the formatter",
}
CHANGE.update(CHANGE4)


# round 5: once more "a trigger of a different kind", with the trigger kinds of rounds 1-4 listed as used up
CHANGE5 = {
    "C01-i": "builder skips a layer that repeats the previous activation on the same neuron (HardSigmoid is not idempotent)",
    "C01-j": "builder tracks rectified neurons in a `u64` bitmask (`1u64 << row`)",
    "C02-i": "sibling reuse of the composed function keyed on the affine data only (decision vs terminal formula)",
    "C02-j": "`update_node(...)` moved into `debug_assert!` (side effect lost in builds without debug assertions)",
    "C03-i": "`is_edge_feasible` shortcut: same normal as an ancestor left via the other label ⇒ infeasible (bias ignored)",
    "C03-j": "`Polytope::status` closed-form fast path for `indim == 1` with the lower bound's sign wrong",
    "C04-i": "forwarding condition 'simplified' to `skipped_children == K - 1` (unwrap on `None` for a single-branch operand node)",
    "C04-j": "`from_poly` allocates with `func_true.outdim()` as the tree's input dimension",
    "C05-i": "`Polytope::contains` folds the smallest distance with `Float::min` (NaN silently dropped)",
    "C05-j": "`phase_dup`: a predicate bit-identical to an ancestor's ⇒ child clones the parent's cached state (label not compared)",
    "C06-i": "a repeated normal vector on a path marks the node Feasible without LP (bias ignored)",
    "C06-j": "`forward_if_redundant` also collapses decisions whose children are equal terminals",
    "C09-j": "`PolyhedraGen::next` does not push a half-space equal to the top of the stack",
    "C09-k": "`find_terminal` reuses the parent's label when the child decision has the same matrix (bias ignored)",
    "C10-i": "closed-form `solve_linprog` for `indim == 1` that maximises instead of minimising",
    "C10-j": "`status()` solves the first 256 rows first and tests the prefix witness against the prefix only",
    "C11-i": "after a solver Error: same normal earlier on the path ⇒ copy the parent's cached state (offsets ignored)",
    "C11-j": "after a solver Error with `in_dim == 1`: interval computation mixing normalized signs and raw biases",
    "C13-i": "`Bfs` queue as `Vec` + cursor, compaction every 1024 items drains one entry too many",
    "C13-j": "`depth_stats` via `minmax()`: the single-element case falls into the catch-all arm",
}
CHANGE.update(CHANGE5)


def main():
    only5 = len(sys.argv) > 1 and sys.argv[1] == "round5"
    only3 = len(sys.argv) > 1 and sys.argv[1] == "round3"
    only4 = len(sys.argv) > 1 and sys.argv[1] == "round4"
    only2 = len(sys.argv) > 1 and sys.argv[1] == "round2"
    sdir = os.path.join(ROOT, "seeded")
    print("| id | change | needs to manifest | caught by (signatures) |")
    print("|---|---|---|---|")
    for sid in sorted(os.listdir(sdir)):
        mp = os.path.join(sdir, sid, "meta.json")
        if not os.path.exists(mp):
            continue
        if only2 and (sid not in CHANGE or sid in CHANGE3 or sid in CHANGE4 or sid in CHANGE5):
            continue
        if only3 and sid not in CHANGE3:
            continue
        if only4 and sid not in CHANGE4:
            continue
        if only5 and sid not in CHANGE5:
            continue
        m = json.load(open(mp))
        own = m["property"]
        caught = []
        for k, v in sorted(m.get("checks", {}).items()):
            if v.get("verdict") == "caught":
                pid = k.split(":")[0]
                caught.append(f"{pid}: " + ", ".join(f"`{s}`" for s in v.get("signatures", [])[:2]))
        needs = (m.get("needs_to_manifest") or "")[:160]
        status = "; ".join(caught) if caught else "**missed**"
        print(f"| {sid} | {CHANGE.get(sid, '')} | {needs} | {status} |")
        _ = own


if __name__ == "__main__":
    main()
