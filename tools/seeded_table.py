#!/usr/bin/env python3
"""Print the markdown table of seeded changes (DESIGN.md §8.4) from seeded/<id>/meta.json.

  tools/seeded_table.py [round2]      round2: only the ids ending in -c/-d/-e that were added in the second round
"""
import json, os, sys

ROOT = os.path.dirname(os.path.dirname(os.path.abspath(__file__)))

# one-line description of each round-2 change (round-1 descriptions live in DESIGN.md itself)
CHANGE = {
    "C01-c": "`partial_leaky_ReLU` predicate rewritten via max{x, αx}: row `(1-α)·x <= 0`",
    "C01-d": "`update_decision` normalises the composed predicate (argmax/class heads lose exact ties)",
    "C02-c": "`update_terminal` shortcut: identity matrix of g's terminal ⇒ return f's terminal (bias of g dropped)",
    "C02-d": "child loop over g stops after label `outdim` ('r rows give r+1 outcomes')",
    "C03-c": "`is_edge_feasible` returns `witnesses.any(contains)` without falling through to the LP",
    "C03-d": "elimination marks a parent Infeasible when all *existing* children are infeasible (wrong for partial decisions)",
    "C04-c": "`reduce` loses its root guard (`skip(1)` after `reverse()` drops the wrong node)",
    "C04-d": "`is_edge_feasible` no longer treats root edges as feasible ⇒ pruned composition forwards the root and unwraps `RootNode`",
    "C05-c": "`phase_two` drops zero-normal rows before the LP and before the `contains` re-check",
    "C05-d": "parent cached as Infeasible when all existing children are infeasible (partial trees)",
    "C06-c": "`PolyhedraGen::skip_subtree` also pops a predicate ⇒ path polytopes one half-space short afterwards",
    "C06-d": "`forward_if_redundant` only forwards when the surviving child is a terminal",
    "C09-d": "`PolyhedraGen::next` does not push trivially true half-spaces (stack misaligned below zero-row decisions)",
    "C09-e": "`AffTree::evaluate` walks the tree itself with the tolerant `Polytope::contains`",
    "C10-c": "`as_linprog` skips rows whose coefficients equal an earlier row's (bias ignored)",
    "C10-d": "`chebyshev_center` drops the `-r <= 0` row",
    "C11-c": "`phase_two` caches the unrepaired LP point after a successful `mirror_points` repair",
    "C11-d": "`num_children(parent) > 1` guard evaluated when queueing instead of when removing",
    "C07-c": "owned `AffFunc op AffTree` forwards as `rhs.op(&self)` (operands swapped for - and /)",
    "C07-d": "`Neg for AffTree` negates every node, decision predicates included",
    "C08-c": "sibling equality replaced by `|Σ(Δmat)| + |Σ(Δbias)| <= ε` (differences cancel)",
    "C08-d": "flattened guards: a decision with only a label-0 terminal child is merged away",
    "C12-c": "`try_remove_child` restores `isleaf` when children 0 and 1 are gone (binary assumption, K=3)",
    "C12-d": "`merge_child_with_parent` without the early root return: relinks the child before failing",
    "C13-c": "`Bfs::skip_subtree` truncates and no longer resets `last_push` (second skip removes foreign entries)",
    "C13-d": "`DfsPre::new` seeds depth with the start node's distance from the tree root",
    "C14-c": "`translate` divides the shift `a·d` by the row norm",
    "C14-d": "`distance` zero-norm guard returns +inf regardless of the bias sign",
    "C15-c": "`remove_zero_rows` judges a zero row by the sum of its coefficients",
    "C15-d": "`remove_redundant_row_constraints` marks all-zero rows redundant without looking at the bias",
    "C16-c": "`stack` concatenates the biases as (other, self)",
    "C16-d": "`convert_to(MatrixGeqBias)` leaves the bias un-negated",
    "C17-c": "`partial_hard_tanh` lower breakpoint uses `-max_val` instead of `min_val`",
    "C17-d": "`inf_norm` skips component 1 of the first bound block (`row_iter.skip(1)` after `next()`)",
    "C18-c": "`extract_range` takes the second half's input shape from `operators[start]` instead of `operators[start-1]`",
    "C18-d": "`read_layers` no longer sorts member names (archive order instead of index order)",
    "C19-c": "all-zero-row test `x == 0.0` became `|x| < f64::EPSILON`",
    "C19-d": "DOT node loop `0..len()` instead of the arena iterator (nodes with index >= len() get no statement)",
}


def main():
    only2 = len(sys.argv) > 1 and sys.argv[1] == "round2"
    sdir = os.path.join(ROOT, "seeded")
    print("| id | change | needs to manifest | caught by (signatures) |")
    print("|---|---|---|---|")
    for sid in sorted(os.listdir(sdir)):
        mp = os.path.join(sdir, sid, "meta.json")
        if not os.path.exists(mp):
            continue
        if only2 and sid not in CHANGE:
            continue
        m = json.load(open(mp))
        own = m["property"]
        caught = []
        for k, v in sorted(m.get("checks", {}).items()):
            if v.get("verdict") == "caught":
                pid = k.split(":")[0]
                caught.append(f"{pid}: " + ", ".join(f"`{s}`" for s in v.get("signatures", [])[:2]))
        needs = (m.get("needs_to_manifest") or "")[:160]
        status = "; ".join(caught) if caught else "**missed**"
        print(f"| {sid} | {CHANGE.get(sid, '')} | {needs} | {status} |")
        _ = own


if __name__ == "__main__":
    main()
