#!/bin/bash
# usage: tools/runsome.sh <quick|thorough> <seed> <ids...>   -- like runall.sh for a subset of the checks
TIER="$1"; SEED="$2"; shift; shift
cd "$(dirname "$0")/.."
rc=0
for id in "$@"; do
  out=$(VERIF_SEED=$SEED ./check $id $TIER 2>&1); code=$?
  line=$(echo "$out" | grep -E "^$id " | head -1)
  nv=$(echo "$out" | grep -c "^VIOLATION")
  nk=$(echo "$out" | grep -c "^KNOWN-FINDING")
  ni=$(echo "$out" | grep -c "^INCONCLUSIVE")
  echo "seed=$SEED exit=$code viol=$nv known=$nk inconcl=$ni :: $line"
  if [ $code -ne 0 ]; then rc=1; echo "$out" | grep -E "^(VIOLATION|INCONCLUSIVE)" | head -5; fi
done
exit $rc
